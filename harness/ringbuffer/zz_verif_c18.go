//go:build verif

package ringbuffer

// C18 ring world (DESIGN §3.8): one RingBuffer in /dev/shm under a per-run name, a writer
// task (the DEED stand-in, using the package's own Write on the creating handle) and a
// reader task (Read, ReadMultipleOf, ReadAll, DiscardStride, BytesReadable) on a second
// handle obtained with Open (or, in some runs, on the same object as the package's tests
// do). The seeded scheduler interleaves the two at operation granularity: each task has
// one scheduling point (sometimes preceded by a short simulated pause) before every
// operation and none inside. The names in /dev/shm are unlinked as soon as both handles
// are mapped, so nothing is left behind however a run ends.
//
// Oracle (property C18, DESIGN §5): a reference byte queue described by two absolute
// stream offsets, wpos (bytes accepted by Write so far, taken from Write's return value
// only) and rpos (offset of the front of the queue). The byte at stream offset i is
// c18Pat(i), so every returned byte is attributable to its offset.
//   - every read returns exactly the bytes at rpos, rpos+1, …: nothing skipped, repeated,
//     reordered or invented; it never returns more than is buffered;
//   - Write accepts min(n, free); the ring never holds more than its size (whether one
//     byte is kept free is not prescribed: both readings are accepted);
//   - Read(n)/ReadAll return min(n, buffered)/everything (as the package's tests state);
//   - ReadMultipleOf(k) returns a multiple of k (the largest one available);
//   - DiscardStride(k) removes a range from the front of the queue only: the read position
//     afterwards is not behind its previous value, not beyond the write position, on a
//     multiple of k, and fewer than k bytes remain (its doc comment). When no multiple of k
//     lies between the read and the write position the call cannot satisfy both; it may
//     then return an error and leave the position alone, but never move it backwards.
// The same exact oracle applies in the faulted configuration (the only faults are
// scheduler stalls of one side, which make long one-sided bursts).
//
// Outside the claimed domain (not generated): chunk size / stride 0 or negative (a
// "multiple of 0" is meaningless; both calls divide by it), negative Read sizes.
//
// Geometry. Ring sizes from 8 bytes to 1 MiB in ordinary runs (powers of two, one more and one
// less, primes, page multiples and sizes that are not: the reader's Open maps the data region
// read-only, and what lies between the end of the ring and the end of its last page is not
// the ring's), and in a small fraction of the runs ("large" runs, c18LargeOneIn) 16–64 MiB
// with a reader that lets the backlog grow to tens of MiB before it reads: a consumer that
// fell behind on a ring of DEED's real size. Chunk sizes, strides and read sizes come from
// the same wide menu (1, powers of two, odd, prime, the ring size, more than the ring size,
// relative to the backlog, log-uniform).
// Rings above 64 KiB carry a pattern that is generated and compared at memcpy speed (a
// table of period 1048573, a prime, with the absolute stream offset stamped over the first
// 8 bytes of every 4096-byte block of the stream), so every returned byte is still compared;
// the number of bytes that flow through such a ring is bounded per run (c18World.budget).

import (
	"bytes"
	"encoding/binary"
	"fmt"
	"os"
	"path/filepath"
	"runtime/debug"
	"time"

	"verif/simrt"
)

func init() {
	real := []string{"ringbuffer.RingBuffer (Create, Open, Write, Read, ReadMultipleOf, ReadAll, DiscardStride, BytesReadable, BytesWriteable, Close, Unlink)", "github.com/fabiokung/shm", "POSIX shared memory in /dev/shm (mmap)"}
	stub := []string{"DEED writer process (a task calling the package's own Write on the creating handle)"}
	simrt.Register(&simrt.Check{
		Name: "C18", Property: "C18", Body: func(env *simrt.Env) { c18Body(env, false) },
		Classify: c18Classify, MaxSteps: 20000, Real: real, Stub: stub,
	})
	// Optional extra (not part of the C18 oracle): the caller keeps the slice returned by a
	// read across later operations of the writer and looks at it again.
	simrt.Register(&simrt.Check{
		Name: "C18hold", Property: "C18", Body: func(env *simrt.Env) { c18Body(env, true) },
		Classify: c18Classify, MaxSteps: 20000, Real: real, Stub: stub,
	})
}

func c18Classify(site string) string {
	switch site {
	case "harness:writer":
		return "writer"
	case "harness:main":
		return "reader"
	}
	return site
}

// c18Pat is the byte at absolute stream offset i (running counter, folded so that a shift
// by a multiple of 256 or of the ring size is visible too).
func c18Pat(i int) byte { return byte(i + (i>>8)*7 + (i>>16)*29) }

// Fast pattern (rings above 64 KiB): byte i of the stream is c18T[i mod c18P], except that
// the 8 bytes from every multiple b of 4096 hold b (little endian, xor 0xA5).
const c18P = 1048573 // prime: no ring size, chunk size or power of two is a multiple

var c18T []byte

func c18Table() []byte {
	if c18T == nil {
		t := make([]byte, c18P)
		x := uint64(0xc18c18c18)
		for i := range t {
			x += 0x9e3779b97f4a7c15
			z := x
			z = (z ^ (z >> 30)) * 0xbf58476d1ce4e5b9
			z = (z ^ (z >> 27)) * 0x94d049bb133111eb
			t[i] = byte((z ^ (z >> 31)) >> 24)
		}
		c18T = t
	}
	return c18T
}

func c18FastAt(i int) byte {
	if j := i & 4095; j < 8 {
		return byte(uint64(i&^4095)>>(8*uint(j))) ^ 0xA5
	}
	return c18Table()[i%c18P]
}

// c18FastFill writes the stream's bytes pos … pos+len(dst)-1 into dst.
func c18FastFill(dst []byte, pos int) {
	t := c18Table()
	for n := 0; n < len(dst); {
		n += copy(dst[n:], t[(pos+n)%c18P:])
	}
	end := pos + len(dst)
	for b := pos &^ 4095; b < end; b += 4096 {
		for j := 0; j < 8; j++ {
			if i := b + j; i >= pos && i < end {
				dst[i-pos] = byte(uint64(b)>>(8*uint(j))) ^ 0xA5
			}
		}
	}
}

var c18Expect []byte // scratch of the comparison (one run at a time per process)

type c18World struct {
	env  *simrt.Env
	size int
	fast bool // pattern of rings above 64 KiB
	// large runs: a ring of tens of MiB and a reader that falls behind
	large  bool
	budget int         // bytes Write may still be offered in full (bounds the work of a run on a big ring)
	opened bool        // the reader's handle comes from Open
	slack  int         // bytes between the end of the ring and the end of its last page
	wb     *RingBuffer // writer's handle (Create)
	rb     *RingBuffer // reader's handle (Open, or the same object)
	wpos   int         // model: bytes accepted by Write so far
	rpos   int         // model: absolute offset of the front of the queue
	mode   int         // reader swarm mode
	hold   bool

	scratch  []byte
	held     []byte // C18hold: slice returned by the last read
	heldPos  int
	wdone    bool
	nWrites  int
	nReads   int
	nDiscard int
	maxQueue int
}

func (w *c18World) queued() int { return w.wpos - w.rpos }

// pat is the byte at absolute stream offset i.
func (w *c18World) pat(i int) byte {
	if w.fast {
		return c18FastAt(i)
	}
	return c18Pat(i)
}

func (w *c18World) fill(dst []byte, pos int) {
	if w.fast {
		c18FastFill(dst, pos)
		return
	}
	for j := range dst {
		dst[j] = c18Pat(pos + j)
	}
}

// mismatch returns the index of the first byte of data that is not the stream's byte at
// pos+index, or -1.
func (w *c18World) mismatch(data []byte, pos int) int {
	if !w.fast {
		for i, b := range data {
			if b != c18Pat(pos+i) {
				return i
			}
		}
		return -1
	}
	const piece = 1 << 20
	if c18Expect == nil {
		c18Expect = make([]byte, piece)
	}
	for off := 0; off < len(data); off += piece {
		n := c18Min(piece, len(data)-off)
		exp := c18Expect[:n]
		c18FastFill(exp, pos+off)
		if !bytes.Equal(data[off:off+n], exp) {
			for i := 0; i < n; i++ {
				if data[off+i] != exp[i] {
					return off + i
				}
			}
		}
	}
	return -1
}

func c18Min(a, b int) int {
	if a < b {
		return a
	}
	return b
}

// c18Choose draws a size: first a group of state-dependent candidates (small constants,
// relative to the fill level, relative to the wrap point, relative to the ring size) or
// "random", then a member. Group 0 / member 0 is the simplest choice.
func c18Choose(groups [][]int, lo, smallMax, bigMax int) int {
	g := simrt.Draw(len(groups)+3) - 2 // group 0 (small sizes) has three times the weight
	if g < 0 {
		g = 0
	}
	v := lo
	if g < len(groups) {
		v = groups[g][simrt.Draw(len(groups[g]))]
	} else if simrt.Draw(2) == 0 {
		v = lo + simrt.Draw(smallMax)
	} else {
		v = lo + simrt.Draw(bigMax)
	}
	if v < lo {
		v = lo
	}
	return v
}

var c18Primes = []int{2, 3, 5, 7, 13, 31, 127, 251, 257, 1009, 4093, 4099, 8191, 10007, 65521, 65537, 131071, 524287, 1000003, 1048573, 16777213, 16777259, 33554467}

// c18LogUniform draws from [1, max]: first a number of bits, then a value with that many bits.
func c18LogUniform(max int) int {
	if max < 2 {
		return 1
	}
	bits := 0
	for 1<<uint(bits+1) <= max {
		bits++
	}
	b := simrt.Draw(bits + 1)
	v := 1<<uint(b) + simrt.Draw(1<<uint(b))
	if v > max {
		v = max
	}
	return v
}

// c18Wide draws a size from a wide menu that does not depend on the state: 1, a power of
// two (or one more, one less), a prime, a multiple of 1000, log-uniform; at most max.
func c18Wide(max int) int {
	v := 1
	switch simrt.Draw(5) {
	case 0:
		b := 0
		for 1<<uint(b+1) <= max {
			b++
		}
		v = 1<<uint(simrt.Draw(b+1)) + simrt.Draw(3) - 1
	case 1:
		v = c18Primes[simrt.Draw(len(c18Primes))]
	case 2:
		v = []int{1, 1000, 10000, 8000, 12000, 100000, 1000000, 10000000, 3 << 10, 3 << 20, 3 << 22, 5 << 22}[simrt.Draw(12)]
	default:
		v = c18LogUniform(max)
	}
	if v > max {
		v = 1 + v%max
	}
	if v < 1 {
		v = 1
	}
	return v
}

func c18Size() int {
	menu := []int{8, 9, 16, 13, 64, 100, 256, 1000, 4096, 8192, 65536, 65535,
		4095, 4097, 5000, 10000, 12288, 12289, 8191, 65537, 100000, 131072, 131071, 1 << 20, 1<<20 + 1, 999983}
	k := simrt.Draw(len(menu) + 4)
	switch {
	case k < len(menu):
		return menu[k]
	case k == len(menu):
		return 8 + simrt.Draw(57)
	case k == len(menu)+1:
		return 8 + simrt.Draw(1017)
	case k == len(menu)+2:
		return 7 + c18LogUniform(1<<20-7)
	}
	return 8 + simrt.Draw(65536-8+1)
}

// one run in c18LargeOneIn has a ring of 16–64 MiB (mostly near the lower end: the cost of a
// run grows with the size)
const c18LargeOneIn = 40

func c18LargeSize() int {
	const MiB = 1 << 20
	menu := []int{17*MiB + 1, 20 * MiB, 16*MiB + 4096, 16*MiB + 4097, 18*MiB + 4095, 24*MiB + 10000, 20000000, 16777259 + 4096, 17*MiB + simrt.Draw(4*MiB), 17*MiB + simrt.Draw(4*MiB),
		32 * MiB, 33554467, 32*MiB - 1, 48*MiB + 1, 64 * MiB, 24*MiB + simrt.Draw(40*MiB)}
	return menu[simrt.Draw(len(menu))]
}

// raw renders the implementation's own pointers next to the model's for the operation log
// (diagnosis only).
func (w *c18World) raw() string {
	if w.wb == nil || w.wb.desc == nil {
		return "-"
	}
	return fmt.Sprintf("model w=%d r=%d queued=%d | desc w=%d r=%d", w.wpos, w.rpos, w.queued(), w.wb.desc.writePointer, w.wb.desc.readPointer)
}

func c18Body(env *simrt.Env, hold bool) {
	// The reader's handle maps the data region read-only: a stray store would be a fatal
	// signal for the whole worker; make it a panic of this task (reported as a crash).
	debug.SetPanicOnFault(true)
	w := &c18World{env: env, hold: hold}
	w.large = simrt.Draw(c18LargeOneIn) == c18LargeOneIn-1
	if w.large {
		w.size = c18LargeSize()
	} else {
		w.size = c18Size()
	}
	w.fast = w.size > 65536
	w.budget = 1 << 60
	sameObject := simrt.Draw(4) == 3
	w.mode = simrt.Draw(3)
	nW := 2 + simrt.Draw(30)
	nR := 2 + simrt.Draw(30)
	if w.fast {
		w.budget = 2*w.size + simrt.Draw(2*w.size)
	}
	if w.large {
		nW, nR = 2+simrt.Draw(8), 2+simrt.Draw(8)
		w.budget = w.size + 1 + simrt.Draw(w.size)
		simrt.Hit("large-ring")
	}

	// per-run unique names: env.Dir is <tmp>/run-<pid>-<run>
	tag := filepath.Base(env.Dir)
	if env.Dir == "" {
		tag = fmt.Sprintf("run-%d-%d", os.Getpid(), env.Run)
	}
	rawName := "verif_c18_" + tag + "_buffer"
	descName := "verif_c18_" + tag + "_description"
	wb, _ := NewRingBuffer(rawName, descName)
	wb.Unlink() // leftovers of a killed earlier process with the same pid
	defer func() {
		if w.rb != nil {
			w.rb.Close()
		}
		wb.Close()
		wb.Unlink() // normally already gone (unlinked right after both handles were mapped)
	}()
	if simrt.Draw(3) == 0 {
		// an earlier life of the same shared-memory names: a writer created the ring, data went in, only
		// part came out, the processes went away without unlinking. The ring created next must start empty.
		if old, _ := NewRingBuffer(rawName, descName); old != nil {
			osize := c18Size()
			if err := old.Create(osize); err == nil {
				junk := make([]byte, 1+simrt.Draw(osize))
				for i := range junk {
					junk[i] = 0xEE
				}
				nw, _ := old.Write(junk)
				nr := 0
				if nw > 0 {
					d, _ := old.Read(simrt.Draw(nw + 1))
					nr = len(d)
				}
				old.Close()
				env.Op("earlier life of the same names: ring of %d bytes, %d written, %d read, closed without unlinking", osize, nw, nr)
				simrt.Hit("created-over-leftover-region")
			}
		}
	}
	if err := wb.Create(w.size); err != nil {
		simrt.Fail("C18.setup", "harness:cannot-create-ring", "Create(%d) in /dev/shm: %v", w.size, err)
	}
	w.wb = wb
	if sameObject {
		w.rb = wb
	} else {
		rb, _ := NewRingBuffer(rawName, descName)
		if err := rb.Open(); err != nil {
			simrt.Fail("C18.setup", "harness:cannot-open-ring", "Open: %v", err)
		}
		w.rb = rb
		w.opened = true
		if pg := os.Getpagesize(); w.size%pg != 0 {
			w.slack = pg - w.size%pg
			simrt.Hit("reader-opened-ring-not-page-multiple")
		}
	}
	// Both handles hold their mappings: remove the names now, so that nothing is left in
	// /dev/shm however the run ends.
	if err := wb.Unlink(); err != nil {
		simrt.Fail("C18.setup", "harness:cannot-unlink-ring", "Unlink: %v", err)
	}
	env.Op("ring size=%d reader=%s mode=%d writer-ops=%d reader-ops=%d large=%v", w.size, map[bool]string{false: "second handle (Open)", true: "same object"}[sameObject], w.mode, nW, nR, w.large)
	w.scratch = make([]byte, 0, w.size+32)

	simrt.GoHarness("writer", func() { w.writer(nW) })
	w.reader(nR)
	for !w.wdone {
		simrt.Y("c18:join")
	}
	// final drain: everything accepted and not yet consumed or discarded comes out, in order
	w.recheckHeld()
	q := w.queued()
	data, err := w.rb.ReadAll()
	env.Op("R final ReadAll -> %d bytes, err=%v [%s]", len(data), err, w.raw())
	if err != nil {
		simrt.Fail("C18.read-result", "ringbuffer:read-error", "final ReadAll returned error %v", err)
	}
	w.consume("final ReadAll", data)
	if len(data) != q {
		simrt.Fail("C18.read-amount", "ringbuffer:readall-short", "final ReadAll returned %d bytes, %d are buffered", len(data), q)
	}
	if n := w.rb.BytesReadable(); n != 0 {
		simrt.Fail("C18.readable", "ringbuffer:bytesreadable-wrong", "BytesReadable()=%d after the ring was drained", n)
	}
	w.scratch, w.held = nil, nil
	env.Sample(map[string]interface{}{"size": w.size, "same_object": sameObject, "mode": w.mode, "writes": w.nWrites, "reads": w.nReads,
		"discards": w.nDiscard, "bytes_accepted": w.wpos, "max_queued": w.maxQueue})
}

// pause lets simulated time pass before some operations (DEED produces packets at its own
// pace, the reader polls at its own): under the run-to-block and priority scheduling
// policies this is what makes the two sides alternate instead of running one after the
// other.
func c18Pause() {
	if simrt.Draw(3) == 2 {
		ds := []time.Duration{time.Microsecond, 5 * time.Microsecond, 20 * time.Microsecond, 100 * time.Microsecond, time.Millisecond}
		time.Sleep(ds[simrt.Draw(len(ds))])
	}
}

// ---------------------------------------------------------------------------------
// writer task

func (w *c18World) writer(nops int) {
	defer func() { w.wdone = true }()
	debug.SetPanicOnFault(true)
	for i := 0; i < nops; i++ {
		c18Pause()
		simrt.Y("c18:writer")
		if w.env.Faulted() && simrt.Chance(1, 10) {
			steps := 3 + simrt.DrawFault(30)
			simrt.Stall("reader", steps)
			w.env.Op("fault: reader stalled for %d steps", steps)
		}
		if simrt.Draw(10) == 9 {
			w.opBytesWriteable()
			continue
		}
		w.opWrite()
	}
}

func (w *c18World) opWrite() {
	size, q := w.size, w.queued()
	free := size - 1 - q // used to bias the sizes only
	tw := size - w.wpos%size
	n := c18Choose([][]int{{1, 0, 2, 3, 7}, {free, free - 1, free + 1, free / 2, free - 2}, {tw, tw - 1, tw + 1}, {size - 1, size, size + 1, size / 2}, {c18Wide(size + 1)}}, 0, 17, size+2)
	if w.large && simrt.Draw(2) == 0 {
		// DEED fills a big ring in big pieces
		n = []int{free, size / 2, 1<<24 + 1 + simrt.Draw(size-1<<24), free - simrt.Draw(8192), tw}[simrt.Draw(5)]
		if n < 0 {
			n = 0
		}
	}
	if n > w.budget {
		// the run's byte budget is used up: small writes only
		if n = 1 + simrt.Draw(4096); n > size {
			n = size
		}
	}
	if n > cap(w.scratch) {
		n = cap(w.scratch)
	}
	buf := w.scratch[:n]
	// (bytes that cannot be accepted need no content: the ring has room for size-q at most)
	w.fill(buf[:c18Min(n, size-q+1)], w.wpos)
	got, err := w.wb.Write(buf)
	w.nWrites++
	w.env.Op("W Write(%d) -> %d, err=%v [%s]", n, got, err, w.raw())
	if err != nil {
		simrt.Fail("C18.write-result", "ringbuffer:write-error", "Write(%d bytes) with %d of %d buffered returned error %v", n, q, size, err)
	}
	if got < 0 || got > n {
		simrt.Fail("C18.write-result", "ringbuffer:write-count-out-of-range", "Write(%d bytes) with %d of %d buffered returned %d", n, q, size, got)
	}
	if q+got > size {
		simrt.Fail("C18.capacity", "ringbuffer:write-overfills", "Write(%d bytes) accepted %d with %d already buffered: %d bytes in a ring of %d", n, got, q, q+got, size)
	}
	lo, hi := c18Min(n, size-1-q), c18Min(n, size-q)
	if lo < 0 {
		lo = 0
	}
	if got != lo && got != hi {
		simrt.Fail("C18.write-amount", "ringbuffer:write-accepts-wrong-amount", "Write(%d bytes) into a ring of %d holding %d accepted %d, want min(n, free) = %d (or %d if no byte is kept free)", n, size, q, got, lo, hi)
	}
	// probes (these use the layout: byte i of the stream lives at i mod size)
	if got > 0 {
		off := w.wpos % size
		if off+got > size {
			simrt.Hit("wrap-during-write")
		} else if off+got == size {
			simrt.Hit("write-ends-at-wrap")
		}
	}
	if got < n {
		simrt.Hit("write-truncated")
	}
	if q > 0 && got > 0 && q+got < size-1 {
		simrt.Hit("write-into-partly-filled")
	}
	if q >= size-1 {
		simrt.Hit("write-when-full")
	}
	w.wpos += got
	w.budget -= got
	if nq := w.queued(); nq >= size-1 {
		simrt.Hit("exactly-full")
		if got == n && got > 0 {
			simrt.Hit("write-fits-exactly")
		}
	}
	if nq := w.queued(); nq > w.maxQueue {
		w.maxQueue = nq
	}
}

func (w *c18World) opBytesWriteable() {
	q := w.queued()
	v := w.wb.BytesWriteable()
	w.env.Op("W BytesWriteable() -> %d [%s]", v, w.raw())
	if v != w.size-1-q && v != w.size-q {
		simrt.Fail("C18.writeable", "ringbuffer:byteswriteable-wrong", "BytesWriteable()=%d with %d bytes buffered in a ring of %d", v, q, w.size)
	}
}

// ---------------------------------------------------------------------------------
// reader task

func (w *c18World) reader(nops int) {
	for i := 0; i < nops; i++ {
		c18Pause()
		simrt.Y("c18:reader")
		if w.env.Faulted() && simrt.Chance(1, 10) {
			steps := 3 + simrt.DrawFault(30)
			simrt.Stall("writer", steps)
			w.env.Op("fault: writer stalled for %d steps", steps)
		}
		w.recheckHeld()
		if w.large && simrt.Draw(3) != 0 {
			// a consumer that fell behind: it comes back when the backlog has grown (or DEED has stopped)
			want := []int{1<<24 + 1 + simrt.Draw(w.size-1<<24), w.size - 1, w.size / 2, 1<<24 + 1}[simrt.Draw(4)]
			for w.queued() < want && !w.wdone {
				time.Sleep(20 * time.Microsecond)
			}
		}
		k := simrt.Draw(12)
		if w.large && simrt.Draw(2) == 0 {
			k = 5 // what dastard does with the ring: size-constrained reads
		}
		switch {
		case k < 5:
			w.opRead()
		case k < 8:
			w.opReadMultipleOf()
		case k < 10:
			if w.mode == 1 {
				w.opRead()
			} else {
				w.opDiscardStride()
			}
		case k < 11:
			w.opReadAll()
		default:
			w.opBytesReadable()
		}
	}
}

// consume checks the bytes returned by a read against the front of the reference queue
// and removes them from it.
func (w *c18World) consume(op string, data []byte) {
	q := w.queued()
	n := len(data)
	bad := w.mismatch(data[:c18Min(n, q)], w.rpos)
	if bad >= 0 {
		simrt.Fail("C18.fifo", "ringbuffer:read-wrong-bytes", "%s returned %d bytes; byte %d is 0x%02x, want 0x%02x = the byte at stream offset %d (the read position is %d, %d bytes accepted so far). %s",
			op, n, bad, data[bad], w.pat(w.rpos+bad), w.rpos+bad, w.rpos, w.wpos, w.attribute(data[bad:], w.rpos+bad))
	}
	if n > q {
		simrt.Fail("C18.fifo", "ringbuffer:read-more-than-buffered", "%s returned %d bytes but only %d are buffered (read position %d, %d bytes accepted so far). %s",
			op, n, q, w.rpos, w.wpos, w.attribute(data[q:], w.wpos))
	}
	if n > 0 {
		off := w.rpos % w.size
		if off+n > w.size {
			simrt.Hit("wrap-during-read")
			if w.opened && w.slack > 0 {
				simrt.Hit("wrap-during-read-on-opened-ring-not-page-multiple")
				if off+n-w.size <= w.slack {
					simrt.Hit("wrapped-read-continuation-shorter-than-page-slack")
				}
			}
			if n > 1<<24 {
				simrt.Hit("wrap-during-read-of-more-than-16MiB")
			}
		} else if off+n == w.size {
			simrt.Hit("read-ends-at-wrap")
		}
		if n == q {
			simrt.Hit("read-drains-to-empty")
		} else if n < q {
			simrt.Hit("read-leaves-data")
		}
	}
	if n > 1<<24 {
		simrt.Hit("read-returns-more-than-16MiB")
	}
	if w.hold && n > 0 {
		w.held, w.heldPos = data, w.rpos
	}
	w.rpos += n
	w.nReads++
}

// attribute says which stream offset the bytes actually come from, if any.
func (w *c18World) attribute(got []byte, want int) string {
	if w.fast {
		return w.attributeFast(got, want)
	}
	m := c18Min(len(got), 6)
	if m < 3 {
		return ""
	}
	from := want - 3*w.size
	if from < 0 {
		from = 0
	}
	for j := from; j+m <= w.wpos+w.size; j++ {
		ok := true
		for t := 0; t < m; t++ {
			if got[t] != c18Pat(j+t) {
				ok = false
				break
			}
		}
		if ok {
			switch {
			case j < want:
				return fmt.Sprintf("The returned bytes are those of stream offset %d: %d bytes behind, i.e. data already consumed or discarded are returned again.", j, want-j)
			case j >= w.wpos:
				return fmt.Sprintf("The returned bytes would be those of stream offset %d, which was never written.", j)
			default:
				return fmt.Sprintf("The returned bytes are those of stream offset %d: %d bytes were skipped.", j, j-want)
			}
		}
	}
	return "The returned bytes match no nearby stream offset."
}

// attributeFast (rings with the fast pattern): the first offset stamp in the returned bytes
// tells which stream offset they come from.
func (w *c18World) attributeFast(got []byte, want int) string {
	for j := 0; j+16 <= len(got) && j < 8192; j++ {
		v := binary.LittleEndian.Uint64(got[j:]) ^ 0xA5A5A5A5A5A5A5A5
		if v%4096 != 0 || v > uint64(w.wpos+2*w.size) {
			continue
		}
		ok := true
		for t := 8; t < 16; t++ {
			ok = ok && got[j+t] == c18FastAt(int(v)+t)
		}
		if !ok {
			continue
		}
		from := int(v) - j
		switch {
		case from < want:
			return fmt.Sprintf("The returned bytes are those of stream offset %d: %d bytes behind, i.e. data already consumed or discarded are returned again.", from, want-from)
		case from >= w.wpos:
			return fmt.Sprintf("The returned bytes would be those of stream offset %d, which was never written.", from)
		case from > want:
			return fmt.Sprintf("The returned bytes are those of stream offset %d: %d bytes were skipped.", from, from-want)
		}
		return "From the next offset stamp on the returned bytes are the right ones."
	}
	return "The returned bytes match no stream offset (no offset stamp nearby)."
}

func (w *c18World) recheckHeld() {
	if !w.hold || w.held == nil {
		return
	}
	if i := w.mismatch(w.held, w.heldPos); i >= 0 {
		simrt.Fail("C18.read-stable", "ringbuffer:returned-slice-overwritten", "the slice returned by an earlier read (stream offsets %d..%d) changed after later writer operations: byte %d is now 0x%02x, was 0x%02x (the returned slice aliases the shared memory, which the read had already released for overwriting)",
			w.heldPos, w.heldPos+len(w.held), i, w.held[i], w.pat(w.heldPos+i))
	}
	w.held = nil
}

// backlogProbe: the reader is far behind (chunk = the chunk size of a size-constrained read, or 0).
func (w *c18World) backlogProbe(q, chunk int) {
	if q <= 1<<24 {
		return
	}
	simrt.Hit("read-with-backlog-over-16MiB")
	if chunk > 0 && chunk < w.size {
		simrt.Hit("readmultiple-with-backlog-over-16MiB")
		if chunk&(chunk-1) != 0 {
			simrt.Hit("readmultiple-with-backlog-over-16MiB-chunk-not-a-power-of-two")
		}
	}
}

func (w *c18World) emptyProbe() {
	if w.queued() == 0 {
		simrt.Hit("exactly-empty-read")
	}
}

func (w *c18World) opRead() {
	size, q := w.size, w.queued()
	tr := size - w.rpos%size
	n := c18Choose([][]int{{1, 0, 2, 3}, {q, q - 1, q + 1, q / 2}, {tr, tr - 1, tr + 1}, {size - 1, size, size + 1}, {c18Wide(2*size + 1)}}, 0, 17, size+2)
	w.emptyProbe()
	w.backlogProbe(q, 0)
	data, err := w.rb.Read(n)
	w.env.Op("R Read(%d) -> %d bytes, err=%v [%s]", n, len(data), err, w.raw())
	if err != nil {
		simrt.Fail("C18.read-result", "ringbuffer:read-error", "Read(%d) returned error %v", n, err)
	}
	if len(data) > n {
		simrt.Fail("C18.read-amount", "ringbuffer:read-more-than-requested", "Read(%d) returned %d bytes", n, len(data))
	}
	w.consume(fmt.Sprintf("Read(%d)", n), data)
	if len(data) != c18Min(n, q) {
		simrt.Fail("C18.read-amount", "ringbuffer:read-short", "Read(%d) with %d bytes buffered returned %d bytes, want %d", n, q, len(data), c18Min(n, q))
	}
}

func (w *c18World) opReadAll() {
	q := w.queued()
	w.emptyProbe()
	w.backlogProbe(q, 0)
	data, err := w.rb.ReadAll()
	w.env.Op("R ReadAll() -> %d bytes, err=%v [%s]", len(data), err, w.raw())
	if err != nil {
		simrt.Fail("C18.read-result", "ringbuffer:read-error", "ReadAll returned error %v", err)
	}
	w.consume("ReadAll()", data)
	if len(data) != q {
		simrt.Fail("C18.read-amount", "ringbuffer:readall-short", "ReadAll with %d bytes buffered returned %d bytes", q, len(data))
	}
}

func (w *c18World) opReadMultipleOf() {
	size, q := w.size, w.queued()
	k := c18Choose([][]int{{1, 2, 3, 4, 8}, {q, q + 1, q - 1, q / 2, q/2 + 1, q / 3}, {size - 1, size - 2, size, size + 1}, {c18Wide(2 * size)}, {c18Wide(size/4 + 1)}}, 1, 16, size)
	w.emptyProbe()
	w.backlogProbe(q, k)
	data, err := w.rb.ReadMultipleOf(k)
	w.env.Op("R ReadMultipleOf(%d) -> %d bytes, err=%v [%s]", k, len(data), err, w.raw())
	if err != nil {
		// A chunk that can never fit (k >= size) may be refused, as long as nothing is consumed.
		if len(data) != 0 {
			simrt.Fail("C18.read-result", "ringbuffer:readmultiple-error-with-data", "ReadMultipleOf(%d) returned %d bytes and error %v", k, len(data), err)
		}
		if k < size {
			simrt.Fail("C18.read-result", "ringbuffer:readmultiple-refuses-valid-chunk", "ReadMultipleOf(%d) on a ring of %d returned error %v", k, size, err)
		}
		simrt.Hit("readmultiple-chunk-too-big")
		return
	}
	w.consume(fmt.Sprintf("ReadMultipleOf(%d)", k), data)
	if len(data)%k != 0 {
		simrt.Fail("C18.multiple", "ringbuffer:readmultiple-not-multiple", "ReadMultipleOf(%d) with %d bytes buffered returned %d bytes, not a multiple of %d", k, q, len(data), k)
	}
	if len(data) != q/k*k {
		simrt.Fail("C18.read-amount", "ringbuffer:readmultiple-short", "ReadMultipleOf(%d) with %d bytes buffered returned %d bytes, want %d", k, q, len(data), q/k*k)
	}
	if len(data) == 0 {
		simrt.Hit("readmultiple-returns-0")
		if q > 0 {
			simrt.Hit("readmultiple-returns-0-with-runt-buffered")
		}
	}
}

func (w *c18World) opBytesReadable() {
	q := w.queued()
	v := w.rb.BytesReadable()
	w.env.Op("R BytesReadable() -> %d [%s]", v, w.raw())
	if v != q {
		simrt.Fail("C18.readable", "ringbuffer:bytesreadable-wrong", "BytesReadable()=%d with %d bytes buffered in a ring of %d", v, q, w.size)
	}
}

func (w *c18World) opDiscardStride() {
	size, q := w.size, w.queued()
	tr := size - w.rpos%size
	k := c18Choose([][]int{{1, 2, 3, 4, 8}, {q, q + 1, q - 1, q / 2}, {size - 1, size, size + 1, tr}, {w.wpos, w.wpos + 1, w.wpos / 2, 8192}, {c18Wide(2 * size)}}, 1, 16, size)
	old := w.rpos
	boundary := w.wpos / k * k // the last stride boundary not beyond the write position
	if w.mode == 2 && boundary < old {
		k, boundary = 1, w.wpos // aligned-use runs: only discards that have a boundary to land on
	}
	if q < k {
		simrt.Hit("discard-with-less-than-stride-buffered")
	}
	if boundary < old {
		simrt.Hit("discard-no-boundary-buffered")
	}
	if q == 0 {
		simrt.Hit("discard-when-empty")
	}
	// The read position is observed in the shared description block (same task, no
	// scheduling point in between: it is the state DiscardStride left). That block counts
	// stream offsets without reduction modulo the size; this is verified here, not assumed:
	// if the block does not agree with the reference queue before the call, the position is
	// derived from BytesReadable instead.
	direct := w.rb.desc != nil && w.rb.desc.readPointer == uint64(old) && w.rb.desc.writePointer == uint64(w.wpos)
	err := w.rb.DiscardStride(uint64(k))
	left := w.rb.BytesReadable()
	w.nDiscard++
	now := w.wpos - left
	how := "as derived from BytesReadable"
	if direct {
		now = int(w.rb.desc.readPointer)
		how = "as stored in the description block"
	}
	w.env.Op("R DiscardStride(%d) -> err=%v, then BytesReadable()=%d: read position %d -> %d [%s]", k, err, left, old, now, w.raw())
	state := fmt.Sprintf("DiscardStride(%d) with read position %d, write position %d (%d bytes buffered, ring of %d): afterwards BytesReadable()=%d and the read position (%s) is %d", k, old, w.wpos, q, size, left, how, now)
	if now > w.wpos {
		simrt.Fail("C18.discard", "ringbuffer:discard-beyond-write-position", "%s, beyond the write position", state)
	}
	if now < old {
		simrt.Fail("C18.discard-backwards", "ringbuffer:discard-moves-read-position-backwards", "%s: it moved BACKWARDS by %d bytes, so bytes already consumed are readable again", state, old-now)
	}
	if err == nil && now%k != 0 {
		simrt.Fail("C18.discard-stride", "ringbuffer:discard-off-stride", "%s, which is not a multiple of %d", state, k)
	}
	if err == nil && w.wpos-now >= k {
		simrt.Fail("C18.discard-runt", "ringbuffer:discard-leaves-a-stride", "%s: %d >= %d bytes remain although whole strides were to be removed", state, w.wpos-now, k)
	}
	if left != w.wpos-now {
		simrt.Fail("C18.readable", "ringbuffer:bytesreadable-wrong", "%s, so %d bytes are buffered", state, w.wpos-now)
	}
	if err != nil && now != old {
		simrt.Fail("C18.discard", "ringbuffer:discard-error-but-moved", "%s although it returned error %v", state, err)
	}
	w.rpos = now // the discarded range [old, now) leaves the reference queue
}
