//go:build verif

package ringbuffer

// C18 ring world (DESIGN §3.8): one RingBuffer in /dev/shm under a per-run name, a writer
// task (the DEED stand-in, using the package's own Write on the creating handle) and a
// reader task (Read, ReadMultipleOf, ReadAll, DiscardStride, BytesReadable) on a second
// handle obtained with Open (or, in some runs, on the same object as the package's tests
// do). The seeded scheduler interleaves the two at operation granularity: each task has
// one scheduling point (sometimes preceded by a short simulated pause) before every
// operation and none inside. The names in /dev/shm are unlinked as soon as both handles
// are mapped, so nothing is left behind however a run ends.
//
// Oracle (property C18, DESIGN §5): a reference byte queue described by two absolute
// stream offsets, wpos (bytes accepted by Write so far, taken from Write's return value
// only) and rpos (offset of the front of the queue). The byte at stream offset i is
// c18Pat(i), so every returned byte is attributable to its offset.
//   - every read returns exactly the bytes at rpos, rpos+1, …: nothing skipped, repeated,
//     reordered or invented; it never returns more than is buffered;
//   - Write accepts min(n, free); the ring never holds more than its size (whether one
//     byte is kept free is not prescribed: both readings are accepted);
//   - Read(n)/ReadAll return min(n, buffered)/everything (as the package's tests state);
//   - ReadMultipleOf(k) returns a multiple of k (the largest one available);
//   - DiscardStride(k) removes a range from the front of the queue only: the read position
//     afterwards is not behind its previous value, not beyond the write position, on a
//     multiple of k, and fewer than k bytes remain (its doc comment). When no multiple of k
//     lies between the read and the write position the call cannot satisfy both; it may
//     then return an error and leave the position alone, but never move it backwards.
// The same exact oracle applies in the faulted configuration (the only faults are
// scheduler stalls of one side, which make long one-sided bursts).
//
// Outside the claimed domain (not generated): chunk size / stride 0 or negative (a
// "multiple of 0" is meaningless; both calls divide by it), negative Read sizes.

import (
	"fmt"
	"os"
	"path/filepath"
	"runtime/debug"
	"time"

	"verif/simrt"
)

func init() {
	real := []string{"ringbuffer.RingBuffer (Create, Open, Write, Read, ReadMultipleOf, ReadAll, DiscardStride, BytesReadable, BytesWriteable, Close, Unlink)", "github.com/fabiokung/shm", "POSIX shared memory in /dev/shm (mmap)"}
	stub := []string{"DEED writer process (a task calling the package's own Write on the creating handle)"}
	simrt.Register(&simrt.Check{
		Name: "C18", Property: "C18", Body: func(env *simrt.Env) { c18Body(env, false) },
		Classify: c18Classify, MaxSteps: 20000, Real: real, Stub: stub,
	})
	// Optional extra (not part of the C18 oracle): the caller keeps the slice returned by a
	// read across later operations of the writer and looks at it again.
	simrt.Register(&simrt.Check{
		Name: "C18hold", Property: "C18", Body: func(env *simrt.Env) { c18Body(env, true) },
		Classify: c18Classify, MaxSteps: 20000, Real: real, Stub: stub,
	})
}

func c18Classify(site string) string {
	switch site {
	case "harness:writer":
		return "writer"
	case "harness:main":
		return "reader"
	}
	return site
}

// c18Pat is the byte at absolute stream offset i (running counter, folded so that a shift
// by a multiple of 256 or of the ring size is visible too).
func c18Pat(i int) byte { return byte(i + (i>>8)*7 + (i>>16)*29) }

type c18World struct {
	env  *simrt.Env
	size int
	wb   *RingBuffer // writer's handle (Create)
	rb   *RingBuffer // reader's handle (Open, or the same object)
	wpos int         // model: bytes accepted by Write so far
	rpos int         // model: absolute offset of the front of the queue
	mode int         // reader swarm mode
	hold bool

	scratch  []byte
	held     []byte // C18hold: slice returned by the last read
	heldPos  int
	wdone    bool
	nWrites  int
	nReads   int
	nDiscard int
	maxQueue int
}

func (w *c18World) queued() int { return w.wpos - w.rpos }

func c18Min(a, b int) int {
	if a < b {
		return a
	}
	return b
}

// c18Choose draws a size: first a group of state-dependent candidates (small constants,
// relative to the fill level, relative to the wrap point, relative to the ring size) or
// "random", then a member. Group 0 / member 0 is the simplest choice.
func c18Choose(groups [][]int, lo, smallMax, bigMax int) int {
	g := simrt.Draw(len(groups)+3) - 2 // group 0 (small sizes) has three times the weight
	if g < 0 {
		g = 0
	}
	v := lo
	if g < len(groups) {
		v = groups[g][simrt.Draw(len(groups[g]))]
	} else if simrt.Draw(2) == 0 {
		v = lo + simrt.Draw(smallMax)
	} else {
		v = lo + simrt.Draw(bigMax)
	}
	if v < lo {
		v = lo
	}
	return v
}

func c18Size() int {
	menu := []int{8, 9, 16, 13, 64, 100, 256, 1000, 4096, 8192, 65536, 65535}
	k := simrt.Draw(len(menu) + 3)
	switch {
	case k < len(menu):
		return menu[k]
	case k == len(menu):
		return 8 + simrt.Draw(57)
	case k == len(menu)+1:
		return 8 + simrt.Draw(1017)
	}
	return 8 + simrt.Draw(65536-8+1)
}

// raw renders the implementation's own pointers next to the model's for the operation log
// (diagnosis only).
func (w *c18World) raw() string {
	if w.wb == nil || w.wb.desc == nil {
		return "-"
	}
	return fmt.Sprintf("model w=%d r=%d queued=%d | desc w=%d r=%d", w.wpos, w.rpos, w.queued(), w.wb.desc.writePointer, w.wb.desc.readPointer)
}

func c18Body(env *simrt.Env, hold bool) {
	// The reader's handle maps the data region read-only: a stray store would be a fatal
	// signal for the whole worker; make it a panic of this task (reported as a crash).
	debug.SetPanicOnFault(true)
	w := &c18World{env: env, hold: hold}
	w.size = c18Size()
	sameObject := simrt.Draw(4) == 3
	w.mode = simrt.Draw(3)
	nW := 2 + simrt.Draw(30)
	nR := 2 + simrt.Draw(30)

	// per-run unique names: env.Dir is <tmp>/run-<pid>-<run>
	tag := filepath.Base(env.Dir)
	if env.Dir == "" {
		tag = fmt.Sprintf("run-%d-%d", os.Getpid(), env.Run)
	}
	rawName := "verif_c18_" + tag + "_buffer"
	descName := "verif_c18_" + tag + "_description"
	wb, _ := NewRingBuffer(rawName, descName)
	wb.Unlink() // leftovers of a killed earlier process with the same pid
	defer func() {
		if w.rb != nil {
			w.rb.Close()
		}
		wb.Close()
		wb.Unlink() // normally already gone (unlinked right after both handles were mapped)
	}()
	if simrt.Draw(3) == 0 {
		// an earlier life of the same shared-memory names: a writer created the ring, data went in, only
		// part came out, the processes went away without unlinking. The ring created next must start empty.
		if old, _ := NewRingBuffer(rawName, descName); old != nil {
			osize := c18Size()
			if err := old.Create(osize); err == nil {
				junk := make([]byte, 1+simrt.Draw(osize))
				for i := range junk {
					junk[i] = 0xEE
				}
				nw, _ := old.Write(junk)
				nr := 0
				if nw > 0 {
					d, _ := old.Read(simrt.Draw(nw + 1))
					nr = len(d)
				}
				old.Close()
				env.Op("earlier life of the same names: ring of %d bytes, %d written, %d read, closed without unlinking", osize, nw, nr)
				simrt.Hit("created-over-leftover-region")
			}
		}
	}
	if err := wb.Create(w.size); err != nil {
		simrt.Fail("C18.setup", "harness:cannot-create-ring", "Create(%d) in /dev/shm: %v", w.size, err)
	}
	w.wb = wb
	if sameObject {
		w.rb = wb
	} else {
		rb, _ := NewRingBuffer(rawName, descName)
		if err := rb.Open(); err != nil {
			simrt.Fail("C18.setup", "harness:cannot-open-ring", "Open: %v", err)
		}
		w.rb = rb
	}
	// Both handles hold their mappings: remove the names now, so that nothing is left in
	// /dev/shm however the run ends.
	if err := wb.Unlink(); err != nil {
		simrt.Fail("C18.setup", "harness:cannot-unlink-ring", "Unlink: %v", err)
	}
	env.Op("ring size=%d reader=%s mode=%d writer-ops=%d reader-ops=%d", w.size, map[bool]string{false: "second handle (Open)", true: "same object"}[sameObject], w.mode, nW, nR)
	w.scratch = make([]byte, 0, w.size+32)

	simrt.GoHarness("writer", func() { w.writer(nW) })
	w.reader(nR)
	for !w.wdone {
		simrt.Y("c18:join")
	}
	// final drain: everything accepted and not yet consumed or discarded comes out, in order
	w.recheckHeld()
	q := w.queued()
	data, err := w.rb.ReadAll()
	env.Op("R final ReadAll -> %d bytes, err=%v [%s]", len(data), err, w.raw())
	if err != nil {
		simrt.Fail("C18.read-result", "ringbuffer:read-error", "final ReadAll returned error %v", err)
	}
	w.consume("final ReadAll", data)
	if len(data) != q {
		simrt.Fail("C18.read-amount", "ringbuffer:readall-short", "final ReadAll returned %d bytes, %d are buffered", len(data), q)
	}
	if n := w.rb.BytesReadable(); n != 0 {
		simrt.Fail("C18.readable", "ringbuffer:bytesreadable-wrong", "BytesReadable()=%d after the ring was drained", n)
	}
	env.Sample(map[string]interface{}{"size": w.size, "same_object": sameObject, "mode": w.mode, "writes": w.nWrites, "reads": w.nReads,
		"discards": w.nDiscard, "bytes_accepted": w.wpos, "max_queued": w.maxQueue})
}

// pause lets simulated time pass before some operations (DEED produces packets at its own
// pace, the reader polls at its own): under the run-to-block and priority scheduling
// policies this is what makes the two sides alternate instead of running one after the
// other.
func c18Pause() {
	if simrt.Draw(3) == 2 {
		ds := []time.Duration{time.Microsecond, 5 * time.Microsecond, 20 * time.Microsecond, 100 * time.Microsecond, time.Millisecond}
		time.Sleep(ds[simrt.Draw(len(ds))])
	}
}

// ---------------------------------------------------------------------------------
// writer task

func (w *c18World) writer(nops int) {
	defer func() { w.wdone = true }()
	debug.SetPanicOnFault(true)
	for i := 0; i < nops; i++ {
		c18Pause()
		simrt.Y("c18:writer")
		if w.env.Faulted() && simrt.Chance(1, 10) {
			steps := 3 + simrt.DrawFault(30)
			simrt.Stall("reader", steps)
			w.env.Op("fault: reader stalled for %d steps", steps)
		}
		if simrt.Draw(10) == 9 {
			w.opBytesWriteable()
			continue
		}
		w.opWrite()
	}
}

func (w *c18World) opWrite() {
	size, q := w.size, w.queued()
	free := size - 1 - q // used to bias the sizes only
	tw := size - w.wpos%size
	n := c18Choose([][]int{{1, 0, 2, 3, 7}, {free, free - 1, free + 1, free / 2, free - 2}, {tw, tw - 1, tw + 1}, {size - 1, size, size + 1, size / 2}}, 0, 17, size+2)
	buf := w.scratch[:n]
	for j := range buf {
		buf[j] = c18Pat(w.wpos + j)
	}
	got, err := w.wb.Write(buf)
	w.nWrites++
	w.env.Op("W Write(%d) -> %d, err=%v [%s]", n, got, err, w.raw())
	if err != nil {
		simrt.Fail("C18.write-result", "ringbuffer:write-error", "Write(%d bytes) with %d of %d buffered returned error %v", n, q, size, err)
	}
	if got < 0 || got > n {
		simrt.Fail("C18.write-result", "ringbuffer:write-count-out-of-range", "Write(%d bytes) with %d of %d buffered returned %d", n, q, size, got)
	}
	if q+got > size {
		simrt.Fail("C18.capacity", "ringbuffer:write-overfills", "Write(%d bytes) accepted %d with %d already buffered: %d bytes in a ring of %d", n, got, q, q+got, size)
	}
	lo, hi := c18Min(n, size-1-q), c18Min(n, size-q)
	if lo < 0 {
		lo = 0
	}
	if got != lo && got != hi {
		simrt.Fail("C18.write-amount", "ringbuffer:write-accepts-wrong-amount", "Write(%d bytes) into a ring of %d holding %d accepted %d, want min(n, free) = %d (or %d if no byte is kept free)", n, size, q, got, lo, hi)
	}
	// probes (these use the layout: byte i of the stream lives at i mod size)
	if got > 0 {
		off := w.wpos % size
		if off+got > size {
			simrt.Hit("wrap-during-write")
		} else if off+got == size {
			simrt.Hit("write-ends-at-wrap")
		}
	}
	if got < n {
		simrt.Hit("write-truncated")
	}
	if q > 0 && got > 0 && q+got < size-1 {
		simrt.Hit("write-into-partly-filled")
	}
	if q >= size-1 {
		simrt.Hit("write-when-full")
	}
	w.wpos += got
	if nq := w.queued(); nq >= size-1 {
		simrt.Hit("exactly-full")
		if got == n && got > 0 {
			simrt.Hit("write-fits-exactly")
		}
	}
	if nq := w.queued(); nq > w.maxQueue {
		w.maxQueue = nq
	}
}

func (w *c18World) opBytesWriteable() {
	q := w.queued()
	v := w.wb.BytesWriteable()
	w.env.Op("W BytesWriteable() -> %d [%s]", v, w.raw())
	if v != w.size-1-q && v != w.size-q {
		simrt.Fail("C18.writeable", "ringbuffer:byteswriteable-wrong", "BytesWriteable()=%d with %d bytes buffered in a ring of %d", v, q, w.size)
	}
}

// ---------------------------------------------------------------------------------
// reader task

func (w *c18World) reader(nops int) {
	for i := 0; i < nops; i++ {
		c18Pause()
		simrt.Y("c18:reader")
		if w.env.Faulted() && simrt.Chance(1, 10) {
			steps := 3 + simrt.DrawFault(30)
			simrt.Stall("writer", steps)
			w.env.Op("fault: writer stalled for %d steps", steps)
		}
		w.recheckHeld()
		switch k := simrt.Draw(12); {
		case k < 5:
			w.opRead()
		case k < 8:
			w.opReadMultipleOf()
		case k < 10:
			if w.mode == 1 {
				w.opRead()
			} else {
				w.opDiscardStride()
			}
		case k < 11:
			w.opReadAll()
		default:
			w.opBytesReadable()
		}
	}
}

// consume checks the bytes returned by a read against the front of the reference queue
// and removes them from it.
func (w *c18World) consume(op string, data []byte) {
	q := w.queued()
	n := len(data)
	bad := -1
	for i := 0; i < n && i < q; i++ {
		if data[i] != c18Pat(w.rpos+i) {
			bad = i
			break
		}
	}
	if bad >= 0 {
		simrt.Fail("C18.fifo", "ringbuffer:read-wrong-bytes", "%s returned %d bytes; byte %d is 0x%02x, want 0x%02x = the byte at stream offset %d (the read position is %d, %d bytes accepted so far). %s",
			op, n, bad, data[bad], c18Pat(w.rpos+bad), w.rpos+bad, w.rpos, w.wpos, w.attribute(data[bad:], w.rpos+bad))
	}
	if n > q {
		simrt.Fail("C18.fifo", "ringbuffer:read-more-than-buffered", "%s returned %d bytes but only %d are buffered (read position %d, %d bytes accepted so far). %s",
			op, n, q, w.rpos, w.wpos, w.attribute(data[q:], w.wpos))
	}
	if n > 0 {
		off := w.rpos % w.size
		if off+n > w.size {
			simrt.Hit("wrap-during-read")
		} else if off+n == w.size {
			simrt.Hit("read-ends-at-wrap")
		}
		if n == q {
			simrt.Hit("read-drains-to-empty")
		} else if n < q {
			simrt.Hit("read-leaves-data")
		}
	}
	if w.hold && n > 0 {
		w.held, w.heldPos = data, w.rpos
	}
	w.rpos += n
	w.nReads++
}

// attribute says which stream offset the bytes actually come from, if any.
func (w *c18World) attribute(got []byte, want int) string {
	m := c18Min(len(got), 6)
	if m < 3 {
		return ""
	}
	from := want - 3*w.size
	if from < 0 {
		from = 0
	}
	for j := from; j+m <= w.wpos+w.size; j++ {
		ok := true
		for t := 0; t < m; t++ {
			if got[t] != c18Pat(j+t) {
				ok = false
				break
			}
		}
		if ok {
			switch {
			case j < want:
				return fmt.Sprintf("The returned bytes are those of stream offset %d: %d bytes behind, i.e. data already consumed or discarded are returned again.", j, want-j)
			case j >= w.wpos:
				return fmt.Sprintf("The returned bytes would be those of stream offset %d, which was never written.", j)
			default:
				return fmt.Sprintf("The returned bytes are those of stream offset %d: %d bytes were skipped.", j, j-want)
			}
		}
	}
	return "The returned bytes match no nearby stream offset."
}

func (w *c18World) recheckHeld() {
	if !w.hold || w.held == nil {
		return
	}
	for i, b := range w.held {
		if b != c18Pat(w.heldPos+i) {
			simrt.Fail("C18.read-stable", "ringbuffer:returned-slice-overwritten", "the slice returned by an earlier read (stream offsets %d..%d) changed after later writer operations: byte %d is now 0x%02x, was 0x%02x (the returned slice aliases the shared memory, which the read had already released for overwriting)",
				w.heldPos, w.heldPos+len(w.held), i, b, c18Pat(w.heldPos+i))
		}
	}
	w.held = nil
}

func (w *c18World) emptyProbe() {
	if w.queued() == 0 {
		simrt.Hit("exactly-empty-read")
	}
}

func (w *c18World) opRead() {
	size, q := w.size, w.queued()
	tr := size - w.rpos%size
	n := c18Choose([][]int{{1, 0, 2, 3}, {q, q - 1, q + 1, q / 2}, {tr, tr - 1, tr + 1}, {size - 1, size, size + 1}}, 0, 17, size+2)
	w.emptyProbe()
	data, err := w.rb.Read(n)
	w.env.Op("R Read(%d) -> %d bytes, err=%v [%s]", n, len(data), err, w.raw())
	if err != nil {
		simrt.Fail("C18.read-result", "ringbuffer:read-error", "Read(%d) returned error %v", n, err)
	}
	if len(data) > n {
		simrt.Fail("C18.read-amount", "ringbuffer:read-more-than-requested", "Read(%d) returned %d bytes", n, len(data))
	}
	w.consume(fmt.Sprintf("Read(%d)", n), data)
	if len(data) != c18Min(n, q) {
		simrt.Fail("C18.read-amount", "ringbuffer:read-short", "Read(%d) with %d bytes buffered returned %d bytes, want %d", n, q, len(data), c18Min(n, q))
	}
}

func (w *c18World) opReadAll() {
	q := w.queued()
	w.emptyProbe()
	data, err := w.rb.ReadAll()
	w.env.Op("R ReadAll() -> %d bytes, err=%v [%s]", len(data), err, w.raw())
	if err != nil {
		simrt.Fail("C18.read-result", "ringbuffer:read-error", "ReadAll returned error %v", err)
	}
	w.consume("ReadAll()", data)
	if len(data) != q {
		simrt.Fail("C18.read-amount", "ringbuffer:readall-short", "ReadAll with %d bytes buffered returned %d bytes", q, len(data))
	}
}

func (w *c18World) opReadMultipleOf() {
	size, q := w.size, w.queued()
	k := c18Choose([][]int{{1, 2, 3, 4, 8}, {q, q + 1, q - 1, q / 2, q/2 + 1, q / 3}, {size - 1, size - 2, size, size + 1}}, 1, 16, size)
	w.emptyProbe()
	data, err := w.rb.ReadMultipleOf(k)
	w.env.Op("R ReadMultipleOf(%d) -> %d bytes, err=%v [%s]", k, len(data), err, w.raw())
	if err != nil {
		// A chunk that can never fit (k >= size) may be refused, as long as nothing is consumed.
		if len(data) != 0 {
			simrt.Fail("C18.read-result", "ringbuffer:readmultiple-error-with-data", "ReadMultipleOf(%d) returned %d bytes and error %v", k, len(data), err)
		}
		if k < size {
			simrt.Fail("C18.read-result", "ringbuffer:readmultiple-refuses-valid-chunk", "ReadMultipleOf(%d) on a ring of %d returned error %v", k, size, err)
		}
		simrt.Hit("readmultiple-chunk-too-big")
		return
	}
	w.consume(fmt.Sprintf("ReadMultipleOf(%d)", k), data)
	if len(data)%k != 0 {
		simrt.Fail("C18.multiple", "ringbuffer:readmultiple-not-multiple", "ReadMultipleOf(%d) with %d bytes buffered returned %d bytes, not a multiple of %d", k, q, len(data), k)
	}
	if len(data) != q/k*k {
		simrt.Fail("C18.read-amount", "ringbuffer:readmultiple-short", "ReadMultipleOf(%d) with %d bytes buffered returned %d bytes, want %d", k, q, len(data), q/k*k)
	}
	if len(data) == 0 {
		simrt.Hit("readmultiple-returns-0")
		if q > 0 {
			simrt.Hit("readmultiple-returns-0-with-runt-buffered")
		}
	}
}

func (w *c18World) opBytesReadable() {
	q := w.queued()
	v := w.rb.BytesReadable()
	w.env.Op("R BytesReadable() -> %d [%s]", v, w.raw())
	if v != q {
		simrt.Fail("C18.readable", "ringbuffer:bytesreadable-wrong", "BytesReadable()=%d with %d bytes buffered in a ring of %d", v, q, w.size)
	}
}

func (w *c18World) opDiscardStride() {
	size, q := w.size, w.queued()
	tr := size - w.rpos%size
	k := c18Choose([][]int{{1, 2, 3, 4, 8}, {q, q + 1, q - 1, q / 2}, {size - 1, size, size + 1, tr}, {w.wpos, w.wpos + 1, w.wpos / 2, 8192}}, 1, 16, size)
	old := w.rpos
	boundary := w.wpos / k * k // the last stride boundary not beyond the write position
	if w.mode == 2 && boundary < old {
		k, boundary = 1, w.wpos // aligned-use runs: only discards that have a boundary to land on
	}
	if q < k {
		simrt.Hit("discard-with-less-than-stride-buffered")
	}
	if boundary < old {
		simrt.Hit("discard-no-boundary-buffered")
	}
	if q == 0 {
		simrt.Hit("discard-when-empty")
	}
	// The read position is observed in the shared description block (same task, no
	// scheduling point in between: it is the state DiscardStride left). That block counts
	// stream offsets without reduction modulo the size; this is verified here, not assumed:
	// if the block does not agree with the reference queue before the call, the position is
	// derived from BytesReadable instead.
	direct := w.rb.desc != nil && w.rb.desc.readPointer == uint64(old) && w.rb.desc.writePointer == uint64(w.wpos)
	err := w.rb.DiscardStride(uint64(k))
	left := w.rb.BytesReadable()
	w.nDiscard++
	now := w.wpos - left
	how := "as derived from BytesReadable"
	if direct {
		now = int(w.rb.desc.readPointer)
		how = "as stored in the description block"
	}
	w.env.Op("R DiscardStride(%d) -> err=%v, then BytesReadable()=%d: read position %d -> %d [%s]", k, err, left, old, now, w.raw())
	state := fmt.Sprintf("DiscardStride(%d) with read position %d, write position %d (%d bytes buffered, ring of %d): afterwards BytesReadable()=%d and the read position (%s) is %d", k, old, w.wpos, q, size, left, how, now)
	if now > w.wpos {
		simrt.Fail("C18.discard", "ringbuffer:discard-beyond-write-position", "%s, beyond the write position", state)
	}
	if now < old {
		simrt.Fail("C18.discard-backwards", "ringbuffer:discard-moves-read-position-backwards", "%s: it moved BACKWARDS by %d bytes, so bytes already consumed are readable again", state, old-now)
	}
	if err == nil && now%k != 0 {
		simrt.Fail("C18.discard-stride", "ringbuffer:discard-off-stride", "%s, which is not a multiple of %d", state, k)
	}
	if err == nil && w.wpos-now >= k {
		simrt.Fail("C18.discard-runt", "ringbuffer:discard-leaves-a-stride", "%s: %d >= %d bytes remain although whole strides were to be removed", state, w.wpos-now, k)
	}
	if left != w.wpos-now {
		simrt.Fail("C18.readable", "ringbuffer:bytesreadable-wrong", "%s, so %d bytes are buffered", state, w.wpos-now)
	}
	if err != nil && now != old {
		simrt.Fail("C18.discard", "ringbuffer:discard-error-but-moved", "%s although it returned error %v", state, err)
	}
	w.rpos = now // the discarded range [old, now) leaves the reference queue
}
