//go:debug asynctimerchan=0
//go:build verif

package ringbuffer

import (
	"testing"

	"verif/simrt"
)

func TestVerif(t *testing.T) { simrt.Main(t) }
