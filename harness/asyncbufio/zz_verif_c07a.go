//go:build verif

package asyncbufio

// C07 world (a): the asynchronous writer alone over a simulated disk.
// Oracle (DESIGN §5 C07): Write returns (len,nil) or (0,err); at every point the disk
// holds a byte prefix of the accepted chunks in order; when Flush or Close returns the
// disk holds exactly everything accepted before the call; Close returns in bounded
// time and the writer goroutine has exited.

import (
	"bytes"
	"fmt"
	"strings"
	"time"

	"verif/simrt"
)

type simDisk struct {
	data   []byte
	writes int
	// A disk write takes time: latency is the number of scheduling points inside one Write (drawn per
	// run), so that producer operations interleave with a write in progress — also with the last write
	// of a flush, after the queue was found empty. inWrite is set while a Write is in progress.
	latency int
	inWrite bool
	// stallNext (faulted runs) stalls the writer goroutine for that many scheduler steps inside its
	// next disk write: the disk hangs in the middle of a write.
	stallNext int
	// split: part of the bytes reach the medium before the write hangs, the rest after it.
	split bool
	// failNext (faulted runs): the next disk write fails (disk momentarily full, EIO): failKeep of its
	// bytes (0, half or all but one) reach the medium and the call returns an error; later writes succeed
	// again. failed records that this has happened.
	failNext bool
	failKeep int
	failed   bool
}

var errSimDisk = fmt.Errorf("simulated disk: write error")

func (d *simDisk) Write(p []byte) (int, error) {
	d.inWrite = true
	if d.failNext {
		d.failNext = false
		d.failed = true
		k := []int{0, len(p) / 2, len(p) - 1}[d.failKeep]
		if k < 0 {
			k = 0
		}
		d.data = append(d.data, p[:k]...)
		for i := 0; i < d.latency; i++ {
			simrt.Gosched()
		}
		d.writes++
		d.inWrite = false
		simrt.Fault("disk-write-error")
		return k, errSimDisk
	}
	k := 0
	if d.split {
		k = len(p) / 2
		d.data = append(d.data, p[:k]...)
	}
	for i := 0; i < d.latency; i++ {
		simrt.Gosched()
	}
	if d.stallNext > 0 {
		st := d.stallNext
		d.stallNext = 0
		simrt.Stall("writeLoop", st)
		simrt.Hit("disk-hangs-inside-a-write")
		simrt.Gosched()
	}
	d.data = append(d.data, p[k:]...)
	d.writes++
	d.inWrite = false
	return len(p), nil
}

func init() {
	simrt.Register(&simrt.Check{
		Name: "C07a", Property: "C07", Body: c07aBody,
		Classify: func(site string) string {
			if strings.HasPrefix(site, "asyncbufio.go") {
				return "writeLoop"
			}
			return site
		},
		Real: []string{"asyncbufio.Writer (NewWriter, Write, WriteString, Flush, Close, writeLoop, flush)", "bufio.Writer"},
		Stub: []string{"disk (in-memory io.Writer whose Write takes 0-3 scheduling points and, as faults, hangs in the middle or fails once keeping none, half or all but one of the bytes)"},
	})
}

func c07aBody(env *simrt.Env) {
	depths := []int{1, 2, 3, 4, 8, 1000}
	depth := depths[simrt.Draw(len(depths))]
	intervals := []time.Duration{time.Millisecond, 10 * time.Millisecond, 100 * time.Millisecond, 3 * time.Second}
	interval := intervals[simrt.Draw(len(intervals))]
	disk := &simDisk{latency: simrt.Draw(4), split: simrt.Draw(2) == 1}
	w := NewWriter(disk, depth, interval)
	env.Op("NewWriter depth=%d flush=%v disk-write-latency=%d scheduling points", depth, interval, disk.latency)

	var accepted []byte
	seq := 0
	nops := 4 + simrt.Draw(40)
	rejected := 0
	checkPrefix := func(when string) {
		if !bytes.HasPrefix(accepted, disk.data) {
			simrt.Fail("C07.order", "asyncbufio:disk-not-prefix", "%s: disk content (%d bytes) is not a prefix of the accepted data (%d bytes)", when, len(disk.data), len(accepted))
		}
	}
	for i := 0; i < nops; i++ {
		switch k := simrt.Draw(12); {
		case k < 7: // write
			sizes := []int{1, 2, 8, 16, 64, 300, 5000}
			n := sizes[simrt.Draw(len(sizes))]
			chunk := make([]byte, n)
			for j := range chunk {
				chunk[j] = byte(seq*31 + j)
			}
			seq++
			got, err := w.Write(chunk)
			env.Op("Write(%d bytes) -> %d,%v", n, got, err)
			switch {
			case err == nil && got == n:
				accepted = append(accepted, chunk...)
				if disk.inWrite {
					simrt.Hit("write-accepted-during-disk-write")
				}
			case err != nil && got == 0:
				rejected++
				simrt.Hit("write-rejected")
			default:
				simrt.Fail("C07.write-result", "asyncbufio:write-result", "Write(%d bytes) returned (%d, %v)", n, got, err)
			}
		case k < 9: // flush
			before := len(accepted)
			if len(w.datachannel) == cap(w.datachannel) {
				simrt.Hit("flush-with-full-queue")
			}
			if disk.inWrite {
				simrt.Hit("flush-called-during-disk-write")
			}
			simrt.Within(30*time.Second, "C07.flush-returns", "asyncbufio:flush-hangs", func() { w.Flush() })
			env.Op("Flush")
			// After a disk write error the accepted data cannot all be in the file; what remains demanded is
			// that the file is still a prefix of the accepted stream (checked after every operation).
			if !disk.failed && !bytes.Equal(disk.data, accepted[:before]) && !bytes.Equal(disk.data, accepted) {
				simrt.Fail("C07.flush-complete", "asyncbufio:flush-incomplete", "after Flush the disk has %d bytes, accepted before the call: %d", len(disk.data), before)
			}
		case k < 11: // let time pass (ticker flushes)
			ds := []time.Duration{time.Microsecond, time.Microsecond, time.Millisecond, time.Millisecond, 20 * time.Millisecond, 3100 * time.Millisecond}
			d := ds[simrt.Draw(len(ds))]
			time.Sleep(d)
			env.Op("sleep %v", d)
		default: // stall the writer goroutine
			if env.Faulted() {
				steps := 5 + simrt.DrawFault(60)
				if k := simrt.DrawFault(3); k == 0 {
					simrt.Stall("writeLoop", steps)
					env.Op("stall writeLoop for %d steps", steps)
				} else if k == 2 {
					disk.failNext = true
					disk.failKeep = simrt.DrawFault(3)
					env.Op("the next disk write will fail once (keeping %s of its bytes)", []string{"none", "half", "all but one"}[disk.failKeep])
				} else {
					disk.stallNext = steps
					env.Op("the disk will hang for %d steps inside its next write", steps)
				}
			}
		}
		checkPrefix(fmt.Sprintf("after op %d", i))
	}
	if len(w.datachannel) > 0 {
		simrt.Hit("close-with-queued-data")
	}
	simrt.Within(30*time.Second, "C07.close-returns", "asyncbufio:close-hangs", func() { w.Close() })
	env.Op("Close")
	checkPrefix("after Close")
	if disk.failed {
		simrt.Hit("closed-after-a-disk-write-error")
	}
	if !disk.failed && !bytes.Equal(disk.data, accepted) {
		simrt.Fail("C07.close-complete", "asyncbufio:close-incomplete", "after Close the disk has %d bytes, accepted: %d", len(disk.data), len(accepted))
	}
	time.Sleep(time.Second) // the loop returns right after signalling completion; give it its turn
	for _, site := range simrt.AliveTasks() {
		if strings.HasPrefix(site, "asyncbufio.go") {
			simrt.Fail("C07.loop-exits", "asyncbufio:loop-alive", "writer goroutine still alive after Close")
		}
	}
	env.Sample(map[string]interface{}{"depth": depth, "flush_interval": interval.String(), "ops": nops, "accepted_bytes": len(accepted), "rejected_writes": rejected, "disk_writes": disk.writes})
}
