//go:build verif

package main

// C16 (status replay and configuration persistence): the checks live in the harness of
// package dastard (harness/root/zz_verif_c16.go: world, workload, oracles); they are
// registered here because the start-up code they need as "this run" and "the next run" —
// setupViper and makeFileExist — is unexported code of this package.

import (
	"strings"

	"github.com/usnistgov/dastard"

	"verif/simrt"
)

// c16Judge is the default judgement of crashes and deadlocks, except that a worker
// process that has run out of file descriptors (ZMQ sockets of thousands of earlier runs
// that ended in a violation) says nothing about the program under test.
func c16Judge(res *simrt.Result) *simrt.Violation {
	if res.Crash != nil {
		if strings.Contains(res.Crash.Value, "too many open files") {
			return nil
		}
		frame := res.Crash.Frame
		if frame == "" {
			frame = "unknown"
		}
		return &simrt.Violation{Rule: "no-panic", Sig: "panic:" + frame, Detail: res.Crash.Value + "\n" + res.Crash.Stack}
	}
	if res.Deadlock {
		return &simrt.Violation{Rule: "no-deadlock", Sig: "deadlock", Detail: "every task blocked for ever"}
	}
	return nil
}

func init() {
	simrt.Register(&simrt.Check{
		Name: "C16a", Property: "C16", Body: func(env *simrt.Env) { dastard.C16aBody(env, setupViper) },
		Classify: dastard.C16Classify, MaxSteps: 40000, Judge: c16Judge, Real: dastard.C16Real, Stub: dastard.C16Stub,
	})
	simrt.Register(&simrt.Check{
		Name: "C16b", Property: "C16", Body: func(env *simrt.Env) { dastard.C16bBody(env, setupViper) },
		Classify: dastard.C16Classify, MaxSteps: 60000, Judge: c16Judge, Confs: []string{"faulted"}, Real: dastard.C16Real, Stub: dastard.C16Stub,
	})
}
