//go:debug asynctimerchan=0
//go:build verif

package main

import (
	"testing"

	"verif/simrt"
)

func TestVerif(t *testing.T) { simrt.Main(t) }
