//go:build !race

package simrt

// RaceBuild reports whether the binary was built with -race.
const RaceBuild = false

func raceDisable() {}
func raceEnable()  {}
