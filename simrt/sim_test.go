//go:debug asynctimerchan=0
//go:build go1.25

package simrt

import (
	"fmt"
	"sync"
	"testing"
	"time"
)

// a tiny hand-instrumented program: N producers, one consumer, a ticker, a mutex
func toyProgram(log *[]string) {
	ch := make(chan int)
	var mu sync.Mutex
	var wg sync.WaitGroup
	shared := 0
	for p := 0; p < 3; p++ {
		p := p
		wg.Add(1)
		Go("toy:producer", func() {
			defer wg.Done()
			for i := 0; i < 4; i++ {
				Y("toy:send")
				ch <- p*100 + i
				W("toy:send")
				Lock("toy:lock", &mu)
				shared++
				Unlock(&mu)
			}
		})
	}
	done := make(chan struct{})
	Go("toy:consumer", func() {
		tk := time.NewTicker(3 * time.Microsecond)
		defer tk.Stop()
		n := 0
		for n < 12 {
			o := SelOrder("toy:sel", 2)
			chosen := -1
			var v int
			Y("toy:sel")
			for k := 0; k < 2 && chosen < 0; k++ {
				switch o[k] {
				case 0:
					select {
					case v = <-ch:
						chosen = 0
					default:
					}
				case 1:
					select {
					case <-tk.C:
						chosen = 1
					default:
					}
				}
			}
			if chosen < 0 {
				select {
				case v = <-ch:
					chosen = 0
				case <-tk.C:
					chosen = 1
				}
			}
			W("toy:sel")
			if chosen == 0 {
				n++
				*log = append(*log, fmt.Sprintf("got %d at %v", v, time.Since(Current().Start())))
			} else {
				*log = append(*log, "tick")
			}
		}
		close(done)
	})
	Y("toy:wait")
	wg.Wait()
	W("toy:wait")
	Y("toy:done")
	<-done
	W("toy:done")
	*log = append(*log, fmt.Sprintf("shared=%d draw=%d", shared, Draw(1000)))
}

func TestDeterminism(t *testing.T) {
	distinct := map[string]bool{}
	for run := 0; run < 40; run++ {
		var l1, l2, l3 []string
		r1 := Run(t, Config{Seed: 7, Run: run, Policy: -1}, func() { toyProgram(&l1) })
		r2 := Run(t, Config{Seed: 7, Run: run, Policy: -1}, func() { toyProgram(&l2) })
		r3 := Run(t, Config{Replay: r1.Tape, Policy: -1}, func() { toyProgram(&l3) })
		a, b, c := fmt.Sprint(l1), fmt.Sprint(l2), fmt.Sprint(l3)
		if a != b || a != c {
			t.Fatalf("run %d diverged:\n%s\n%s\n%s", run, a, b, c)
		}
		if r1.SchedHash != r2.SchedHash || r1.SchedHash != r3.SchedHash || r1.Steps != r3.Steps {
			t.Fatalf("run %d: hashes differ %x %x %x", run, r1.SchedHash, r2.SchedHash, r3.SchedHash)
		}
		if r1.Budget || r1.Deadlock || r1.Crash != nil {
			t.Fatalf("run %d: %+v %v", run, r1, r1.Log)
		}
		distinct[a] = true
	}
	if len(distinct) < 20 {
		t.Fatalf("only %d distinct interleavings in 40 runs", len(distinct))
	}
	t.Logf("%d distinct logs", len(distinct))
}

func TestDeadlockAndCrash(t *testing.T) {
	r := Run(t, Config{Seed: 1, Policy: -1, DeadlockAfter: time.Minute}, func() {
		c := make(chan int)
		Y("x")
		<-c
		W("x")
	})
	if !r.Deadlock {
		t.Fatalf("expected deadlock: %+v", r)
	}
	r = Run(t, Config{Seed: 1, Policy: -1}, func() {
		done := make(chan int)
		Go("crasher", func() {
			var m map[string]int
			m["a"] = 1
		})
		Y("x")
		<-done
		W("x")
	})
	if r.Crash == nil {
		t.Fatalf("expected crash: %+v", r)
	}
	// tickers left behind and parked goroutines must not keep the bubble alive
	r = Run(t, Config{Seed: 1, Policy: -1}, func() {
		Go("ticky", func() {
			tk := time.NewTicker(time.Millisecond)
			for {
				Y("t")
				<-tk.C
				W("t")
			}
		})
		_ = time.NewTicker(time.Second)
		Y("s")
		time.Sleep(10 * time.Millisecond)
		W("s")
	})
	if r.Crash != nil || r.Deadlock || r.Budget {
		t.Fatalf("unexpected: %+v %v", r, r.Log)
	}
	t.Logf("steps=%d simtime=%v alive=%v", r.Steps, r.SimTime, r.TasksAlive)
}

func TestMinimize(t *testing.T) {
	tape := make([]uint32, 200)
	for i := range tape {
		tape[i] = uint32(i*7 + 1)
	}
	// fails iff some value >= 500 exists at an index >= 3
	test := func(c []uint32) bool {
		for i, v := range c {
			if i >= 3 && v >= 500 {
				return true
			}
		}
		return false
	}
	out, used := Minimize(tape, test, 400)
	t.Logf("minimised to %v in %d runs", out, used)
	if !test(out) || len(out) > 6 {
		t.Fatalf("bad minimisation: %v", out)
	}
}

func BenchmarkStep(b *testing.B) {
	r := Run(&testing.T{}, Config{Seed: 1, Policy: 0, MaxSteps: b.N + 10}, func() {
		for i := 0; i < b.N; i++ {
			Y("bench")
		}
	})
	_ = r
}
