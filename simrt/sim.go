//go:build go1.25

// Package simrt is the deterministic-simulation runtime used by the dastard checks.
//
// One simulated run is one testing/synctest bubble (fake clock, quiescence detection).
// Inside it exactly one *task* (a goroutine of the system under test or of the harness)
// runs at a time: every task parks on a private gate at the hooks the instrumenter
// inserted (before/after channel operations, selects, wait-group waits, sleeps, lock
// acquisitions, at goroutine start), and the scheduler — the bubble's root goroutine —
// releases one parked task per step, chosen by the choice tape. All other decisions
// (select priority, map order, virtual CPU time per step, faults, workload) come from
// the same tape, so one (seed, run index) or one recorded tape is one exactly repeatable
// execution.
//
// With no simulation active every hook is a pass-through, which is what lets the
// instrumented tree still run the repository's own tests.
package simrt

import (
	"fmt"
	"runtime"
	"runtime/debug"
	"sort"
	"strings"
	"sync"
	"testing"
	"testing/synctest"
	"time"
)

// Scheduling policies (drawn per run unless fixed by Config.Policy).
const (
	PolicyRandom     = 0 // uniform among ready tasks
	PolicyRunToBlock = 1 // keep the running task while it stays ready (few switches)
	PolicyPCT        = 2 // random priorities with a few change points
	PolicyCount      = 3
)

// Task states.
const (
	stNew     = 0
	stRunning = 1
	stParked  = 2
	stDone    = 3
)

// Park kinds.
const (
	pkStart = 1
	pkYield = 2
	pkWake  = 3
	pkLock  = 4
	pkSel   = 5
)

// Task is one simulated goroutine.
type Task struct {
	ID        int
	Site      string // spawn site "file.go:line"
	Class     string // set by the harness classifier (stall faults, census)
	Harness   bool
	gate      chan struct{}
	started   chan struct{}
	state     int
	parkKind  int
	parkSite  string
	lockDepth int
	parkedAt  int           // scheduler step at which the task last parked (fairness)
	held      [16]tryLocker // simulated locks the task holds (most recent last)
	nHeld     int
	lockEpoch uint64 // unlock epoch seen at the last failed TryLock
	goid      uint64
	prio      int // PCT priority
	stallTo   int // not eligible before this step (stall fault)
	regions   int // nesting of monitored regions (debug)
	dying     bool
}

// Violation is a property violation detected by an oracle or by the runtime.
type Violation struct {
	Rule   string // oracle rule id, e.g. "C07.torn-record"
	Sig    string // signature: identifies the defect rather than the instance
	Detail string
}

// Crash is a panic captured in a task.
type Crash struct {
	TaskID int
	Site   string
	Value  string
	Stack  string
	Frame  string // top frame inside the module under test
}

// Config configures one run.
type Config struct {
	Seed     uint64
	Run      int
	Replay   []uint32 // non-nil: replay this tape
	MaxSteps int      // scheduler steps budget (default 400000)
	Policy   int      // -1: draw per run
	// Classify maps a spawn site to a task class; nil means class = site.
	Classify func(site string) string
	// NoDelta disables the per-step virtual CPU time (used by the determinism tests only).
	NoDelta bool
	// DeadlockAfter is the simulated time of total silence after which the run is
	// declared deadlocked (default 1h).
	DeadlockAfter time.Duration
	// KeepTrace keeps the full rendered schedule (for replay files).
	KeepTrace bool
}

// Result is what a run produced.
type Result struct {
	Tape       []uint32
	Steps      int
	Switches   int
	SimTime    time.Duration
	Violation  *Violation
	Crash      *Crash
	Deadlock   bool // nothing runnable and no timer pending for DeadlockAfter
	Budget     bool // step or tape budget exhausted: not a verdict
	SchedHash  uint64
	PairSet    map[uint64]struct{}
	Faults     map[string]int
	Probes     map[string]int
	TasksMade  int
	TasksAlive []string // spawn sites of tasks still alive at the end (census)
	Trace      []string
	Policy     int
	Delta      time.Duration
	Log        []string // harness notes
	Races      []RaceReport
	KindCounts [8]int // tape draws per kind (diagnostics)
}

// Sim is the state of the active run.
type Sim struct {
	cfg     Config
	tape    *Tape
	t       *testing.T
	start   time.Time
	simTime time.Duration

	tasks   []*Task // every task ever made in this run, by id
	live    []*Task // the unfinished ones, in id order (what the scheduler loop scans)
	nAlive  int
	over    bool
	overWhy string
	wake    chan struct{}
	never   chan struct{}

	steps      int
	switches   int
	lastPick   int
	policy     int
	delta      time.Duration
	unlockEpch uint64
	pctChange  []int

	violation *Violation
	crash     *Crash
	deadlock  bool
	budget    bool

	alive  []string
	faults map[string]int
	probes map[string]int
	log    []string
	mu     sync.Mutex // guards faults/probes/log/violation (harness-side calls only)

	// schedule hash / pair coverage / trace (preallocated, race-hidden)
	schedHash uint64
	lastSite  uint64
	lastTask  int
	pairs     []uint64
	nPairs    int
	trTask    []int32
	trSite    []string
	trKind    []int8
	nTr       int

	// stall faults
	stallClass string
	stallFrom  int
	stallTo    int

	// region monitor
	regionOwner map[string]int
	monitorFn   func(ev RegionEvent)

	// fault plan for the os shims
	FS *FaultFS

	races []RaceReport
}

var cur *Sim // the active simulation (nil: pass-through)

// goid → task table (open addressing, tombstone-free within a run)
const goidTabSize = 1 << 18

type goidEnt struct {
	id uint64
	t  *Task
}

var goidTab [goidTabSize]goidEnt

//go:norace
func lookupTask() *Task {
	if cur == nil {
		return nil
	}
	id := goid()
	h := (id * 0x9e3779b97f4a7c15) >> 46 // 15 bits
	for i := 0; i < goidTabSize; i++ {
		e := &goidTab[(int(h)+i)&(goidTabSize-1)]
		if e.id == id {
			return e.t
		}
		if e.id == 0 {
			return nil
		}
	}
	return nil
}

//go:norace
func insertTask(id uint64, t *Task) {
	h := (id * 0x9e3779b97f4a7c15) >> 46
	for i := 0; i < goidTabSize; i++ {
		e := &goidTab[(int(h)+i)&(goidTabSize-1)]
		if e.id == 0 || e.id == id {
			e.t = t
			e.id = id
			return
		}
	}
	panic("simrt: goid table full")
}

//go:norace
func removeTask(id uint64) {
	h := (id * 0x9e3779b97f4a7c15) >> 46
	for i := 0; i < goidTabSize; i++ {
		e := &goidTab[(int(h)+i)&(goidTabSize-1)]
		if e.id == id {
			e.t = nil // keep id as a tombstone so probing chains stay intact
			return
		}
		if e.id == 0 {
			return
		}
	}
}

func clearGoidTab() {
	for i := range goidTab {
		goidTab[i] = goidEnt{}
	}
}

// Active reports whether a simulation is running.
//
//go:norace
func Active() bool { return cur != nil }

//go:norace
func active() *Sim { return cur }

//go:norace
func setCur(s *Sim) { cur = s }

// Current returns the active simulation.
//
//go:norace
func Current() *Sim { return cur }

const traceCap = 1 << 17

// fairnessSteps bounds how long a ready task can be passed over (see the scheduler loop).
const fairnessSteps = 2500

var gTrTime []int64 // per step: fake time since the start of the run

// task tables are process-global and reused (one run at a time): allocation-free spawning
const maxTasks = 1 << 16

var gTasks, gLive []*Task

var gTrReady []uint64 // per step: number of ready tasks (low 16 bits) and a hash of their ids
const pairCap = 1 << 16

// big per-run buffers are process-global and reused: goroutines leaked by finished runs
// may keep their Sim reachable, and the Sim must therefore stay small.
var (
	gPairs  []uint64
	gTrTask []int32
	gTrSite []string
	gTrKind []int8
)

// Run executes body as task 0 of a fresh simulation inside a synctest bubble.
func Run(t *testing.T, cfg Config, body func()) (res *Result) {
	if active() != nil {
		panic("simrt: nested Run")
	}
	if cfg.MaxSteps == 0 {
		cfg.MaxSteps = 400000
	}
	if cfg.DeadlockAfter == 0 {
		cfg.DeadlockAfter = time.Hour
	}
	s := &Sim{cfg: cfg, t: t}
	if cfg.Replay != nil {
		s.tape = ReplayTape(cfg.Replay)
	} else {
		s.tape = NewTape(cfg.Seed, cfg.Run)
	}
	if cap(gTasks) == 0 {
		gTasks = make([]*Task, 0, maxTasks)
		gLive = make([]*Task, 0, maxTasks)
	}
	for i := range gTasks[:cap(gTasks)] {
		gTasks[:cap(gTasks)][i] = nil
		gLive[:cap(gLive)][i] = nil
	}
	s.tasks = gTasks[:0]
	s.live = gLive[:0]
	s.faults = map[string]int{}
	s.probes = map[string]int{}
	s.regionOwner = map[string]int{}
	if gPairs == nil {
		gPairs = make([]uint64, pairCap)
		gTrTask = make([]int32, traceCap)
		gTrSite = make([]string, traceCap)
		gTrKind = make([]int8, traceCap)
		gTrReady = make([]uint64, traceCap)
		gTrTime = make([]int64, traceCap)
	}
	for i := range gPairs {
		gPairs[i] = 0
	}
	s.pairs, s.trTask, s.trSite, s.trKind = gPairs, gTrTask, gTrSite, gTrKind
	s.lastTask = -1
	s.lastPick = -1
	s.schedHash = 14695981039346656037
	clearGoidTab()
	timerSkewCounter = 0

	func() {
		defer func() {
			if r := recover(); r != nil {
				msg := fmt.Sprint(r)
				if !strings.Contains(msg, "deadlock") && !strings.Contains(msg, "blocked goroutines remain") {
					// A panic of the root itself (scheduler) is harness trouble.
					s.budget = true
					s.log = append(s.log, "root panic: "+msg+"\n"+string(debug.Stack()))
				}
			}
		}()
		synctest.Test(t, func(t *testing.T) {
			s.start = time.Now()
			s.wake = make(chan struct{}, 1)
			s.never = make(chan struct{})
			setCur(s)
			// per-run configuration draws
			if cfg.Policy >= 0 && cfg.Policy < PolicyCount {
				s.policy = cfg.Policy
			} else {
				s.policy = s.tape.draw(KPolicy, PolicyCount)
			}
			if !cfg.NoDelta {
				// log-scale family: 1µs … 50µs mostly, occasionally up to 2ms
				choices := []time.Duration{1, 2, 5, 10, 20, 50, 200, 2000}
				s.delta = choices[s.tape.draw(KDelta, len(choices))] * time.Microsecond
			}
			if s.policy == PolicyPCT {
				n := 1 + s.tape.draw(KPolicy, 4)
				for i := 0; i < n; i++ {
					s.pctChange = append(s.pctChange, s.tape.draw(KPolicy, 3000))
				}
				sort.Ints(s.pctChange)
			}
			// The bubble always ends with the recoverable "blocked goroutines remain" panic, never by a
			// normal return: after a normal return synctest.Test fails the enclosing test with FailNow when
			// the race detector has reported anything during the run, which would end the worker without
			// its report. (Worlds that leave tasks blocked on application channels end this way anyhow.)
			go func() { <-s.never }()
			s.spawn("harness:main", true, func() {
				body()
			})
			s.loop()
			s.over = true
			s.census()
			// race reports of the run proper; what the detector says while killed tasks unwind
			// (their deferred calls run unserialised) is an artefact of the tear-down
			s.races = CollectRaceReports()
			s.killParked()
			CollectRaceReports()
			setCur(nil)
			// Tasks blocked for ever on application channels are abandoned; the bubble
			// then ends with the recoverable "blocked goroutines remain" panic.
		})
	}()
	setCur(nil)

	res = &Result{
		Tape: s.tape.Snapshot(), Steps: s.steps, Switches: s.switches,
		Violation: s.violation, Crash: s.crash, Deadlock: s.deadlock,
		Budget: s.budget || s.tape.Overflow, SchedHash: s.schedHash,
		Faults: s.faults, Probes: s.probes, TasksMade: len(s.tasks),
		Policy: s.policy, Delta: s.delta, Log: s.log, Races: s.races,
	}
	res.SimTime = s.simTime
	for _, k := range s.tape.Kinds {
		if int(k) < len(res.KindCounts) {
			res.KindCounts[k]++
		}
	}
	res.PairSet = make(map[uint64]struct{}, s.nPairs)
	for _, p := range s.pairs {
		if p != 0 {
			res.PairSet[p] = struct{}{}
		}
	}
	res.TasksAlive = s.alive
	if cfg.KeepTrace {
		res.Trace = s.renderTrace()
	}
	return res
}

// census records which non-harness tasks are alive when the run ends.
func (s *Sim) census() {
	for _, tk := range s.tasks {
		if tk.state != stDone && !tk.Harness {
			s.alive = append(s.alive, tk.Site)
		}
	}
}

// killParked terminates (runtime.Goexit, deferred calls run) every task parked at a
// hook, repeatedly, so that finished runs do not leak goroutines and memory. While a
// task is dying its hooks are pass-throughs and a contended lock blocks it for ever.
//
//go:norace
func (s *Sim) killParked() {
	raceDisable()
	defer raceEnable()
	for round := 0; round < 64; round++ {
		synctest.Wait()
		n := 0
		for _, tk := range s.tasks {
			if tk.state == stParked {
				tk.state = stRunning
				tk.dying = true
				tk.gate <- struct{}{}
				n++
			}
		}
		if n == 0 {
			break
		}
	}
	synctest.Wait()
}

func (s *Sim) renderTrace() []string {
	out := make([]string, 0, s.nTr)
	kind := map[int8]string{pkStart: "start", pkYield: "yield", pkWake: "wake", pkLock: "lock", pkSel: "select"}
	for i := 0; i < s.nTr && i < traceCap; i++ {
		cls := ""
		if id := int(s.trTask[i]); id >= 0 && id < len(s.tasks) {
			cls = s.tasks[id].Class
		}
		out = append(out, fmt.Sprintf("%d: task %d (%s) resumes from %s at %s [ready %d #%x t=%d]", i, s.trTask[i], cls, kind[s.trKind[i]], s.trSite[i], gTrReady[i]&0xffff, gTrReady[i]>>16, gTrTime[i]))
	}
	return out
}

// simTime is filled when the loop ends.
func (s *Sim) noteEnd() { s.simTime = time.Since(s.start) }

// spawn creates a task and its goroutine; returns after the goroutine has registered
// itself and is about to park (so registrations are serialised).
//
//go:norace
func (s *Sim) spawn(site string, harness bool, fn func()) *Task {
	tk := &Task{ID: len(s.tasks), Site: site, Harness: harness, gate: make(chan struct{}), started: make(chan struct{})}
	tk.parkedAt = s.steps
	tk.Class = site
	if s.cfg.Classify != nil {
		tk.Class = s.cfg.Classify(site)
	}
	if s.policy == PolicyPCT {
		tk.prio = s.tape.draw(KPolicy, 1000)
	}
	if len(s.tasks) == cap(s.tasks) {
		// out of room: the run ends as a budget overrun (never a verdict); the spawner stops here
		s.budget = true
		s.over = true
		s.overWhy = "too many tasks"
		select {
		case s.wake <- struct{}{}:
		default:
		}
		<-s.never
	}
	s.tasks = append(s.tasks, tk) // never grows (preallocated): growslice is race-instrumented
	s.live = append(s.live, tk)
	s.nAlive++
	go taskMain(s, tk, fn)
	raceDisable()
	<-tk.started
	raceEnable()
	return tk
}

//go:norace
func taskMain(s *Sim, tk *Task, fn func()) {
	raceDisable()
	tk.goid = goid()
	insertTask(tk.goid, tk)
	tk.state = stParked
	tk.parkKind = pkStart
	tk.parkSite = tk.Site
	close(tk.started)
	<-tk.gate
	raceEnable()
	defer func() { s.taskExit(tk, recover()) }()
	// A memory fault at a non-nil address (a store into a read-only mapping, a read past a mapping) is a
	// fatal error of the whole OS process by default: the worker would die and the run's tape with it.
	// As a panic of the task it is reported like any other crash of the program, with its replay file.
	debug.SetPanicOnFault(true)
	if s.over {
		if tk.dying {
			return
		}
		<-s.never
	}
	fn()
}

//go:norace
func (s *Sim) taskExit(tk *Task, r interface{}) {
	if _, ok := r.(CrashHere); ok {
		r = nil // the task was killed at a crash point: not a failure of the program
		// A killed process takes its locks with it. Deferred unlocks have run while the task unwound;
		// whatever it still holds (a lock released by an explicit Unlock further down the killed code
		// path) is released here, or the next simulated process in this OS process could never take it.
		for tk.nHeld > 0 {
			tk.nHeld--
			m := tk.held[tk.nHeld]
			tk.held[tk.nHeld] = nil
			if m.TryLock() {
				m.Unlock() // it was free after all (released on another path): leave it free
			} else {
				m.Unlock()
			}
			s.unlockEpch++
		}
		tk.lockDepth = 0
	}
	if r != nil {
		if _, ok := r.(stopRun); !ok {
			s.noteCrash(tk, r, debug.Stack())
		}
	}
	raceDisable()
	tk.state = stDone
	removeTask(tk.goid)
	if tk.ID == 0 || r != nil {
		s.over = true
		if s.overWhy == "" {
			if r != nil {
				s.overWhy = "crash"
			} else {
				s.overWhy = "body returned"
			}
		}
	}
	select {
	case s.wake <- struct{}{}:
	default:
	}
	raceEnable()
}

type stopRun struct{}

func (s *Sim) noteCrash(tk *Task, r interface{}, stack []byte) {
	if s.crash != nil {
		return
	}
	c := &Crash{TaskID: tk.ID, Site: tk.Site, Value: fmt.Sprint(r), Stack: string(stack)}
	c.Frame = topModuleFrame(c.Stack)
	s.crash = c
}

// ModulePrefix identifies frames of the module under test in panic stacks.
var ModulePrefix = "github.com/usnistgov/dastard"

func topModuleFrame(stack string) string {
	lines := strings.Split(stack, "\n")
	seenPanic := false
	for i := 0; i < len(lines); i++ {
		l := lines[i]
		if strings.HasPrefix(l, "panic(") {
			seenPanic = true
			continue
		}
		if !seenPanic {
			continue
		}
		if strings.HasPrefix(l, ModulePrefix) && !strings.Contains(l, "zz_verif") {
			// function name without arguments
			if j := strings.LastIndex(l, "("); j > 0 {
				l = l[:j]
			}
			return strings.TrimPrefix(l, ModulePrefix)
		}
	}
	return ""
}

// loop is the scheduler; it runs on the bubble's root goroutine.
//
//go:norace
func (s *Sim) loop() {
	raceDisable()
	defer raceEnable()
	defer s.noteEnd()
	var ready [1024]*Task
	for {
		synctest.Wait()
		if s.over {
			return
		}
		if s.steps >= s.cfg.MaxSteps || s.tape.Overflow {
			s.budget = true
			s.over = true
			s.overWhy = "budget"
			return
		}
		n := 0
		anyLockWait := false
		// drop finished tasks from the scan list (stable, in place)
		w := 0
		for _, tk := range s.live {
			if tk.state != stDone {
				s.live[w] = tk
				w++
			}
		}
		s.live = s.live[:w]
		for _, tk := range s.live {
			if tk.state != stParked {
				continue
			}
			if tk.parkKind == pkLock && tk.lockEpoch == s.unlockEpch {
				anyLockWait = true
				continue
			}
			if tk.stallTo > s.steps {
				continue
			}
			if s.stallClass != "" && s.steps >= s.stallFrom && s.steps < s.stallTo && tk.Class == s.stallClass {
				continue
			}
			if n < len(ready) {
				ready[n] = tk
				n++
			}
		}
		_ = anyLockWait
		if n == 0 {
			// Nothing to release: everybody else is durably blocked (or stalled).
			// If a stall window excludes parked tasks, let virtual time move one
			// step so the window passes.
			if s.anyStalledParked() {
				s.steps++
				if s.delta > 0 {
					time.Sleep(s.delta)
				} else {
					time.Sleep(time.Microsecond)
				}
				continue
			}
			// Block until some task parks (a timer fired or an external wake-up).
			tm := time.NewTimer(s.cfg.DeadlockAfter)
			select {
			case <-s.wake:
				tm.Stop()
			case <-tm.C:
				s.deadlock = true
				s.over = true
				s.overWhy = "deadlock"
				return
			}
			continue
		}
		// Fairness: no real scheduler leaves a runnable thread waiting for ever, and the liveness rules of
		// the checks ("returns within 20 s") presuppose that. The priority-based policies have no fairness
		// of their own, so a task that has been ready for fairnessSteps consecutive steps runs now.
		pick := -1
		for i := 0; i < n; i++ {
			if s.steps-ready[i].parkedAt > fairnessSteps && (pick < 0 || ready[i].parkedAt < ready[pick].parkedAt) {
				pick = i
			}
		}
		if pick >= 0 {
			s.noteSwitch(ready[pick])
		} else {
			pick = s.choose(ready[:n])
		}
		tk := ready[pick]
		if s.nTr < traceCap {
			h := uint64(0)
			for i := 0; i < n; i++ {
				h = h*1000003 + uint64(ready[i].ID+1)
			}
			gTrReady[s.nTr] = h<<16 | uint64(n&0xffff)
			gTrTime[s.nTr] = int64(time.Since(s.start))
		}
		s.record(tk)
		s.steps++
		tk.state = stRunning
		// drain a stale wake token so that the next wait really waits
		select {
		case <-s.wake:
		default:
		}
		tk.gate <- struct{}{}
		if s.delta > 0 {
			time.Sleep(s.delta)
		}
	}
}

//go:norace
func (s *Sim) anyStalledParked() bool {
	for _, tk := range s.live {
		if tk.state != stParked {
			continue
		}
		if tk.stallTo > s.steps {
			return true
		}
		if s.stallClass != "" && s.steps >= s.stallFrom && s.steps < s.stallTo && tk.Class == s.stallClass {
			return true
		}
	}
	return false
}

//go:norace
func (s *Sim) choose(ready []*Task) int {
	n := len(ready)
	if n == 1 {
		s.noteSwitch(ready[0])
		return 0
	}
	pick := 0
	switch s.policy {
	case PolicyRunToBlock:
		// keep the last task if it is ready, else draw; with probability 1/8 draw anyway
		keep := -1
		for i, tk := range ready {
			if tk.ID == s.lastPick {
				keep = i
			}
		}
		if keep >= 0 && s.tape.draw(KSched, 8) != 7 {
			pick = keep
		} else {
			pick = s.tape.draw(KSched, n)
		}
	case PolicyPCT:
		// change points lower the priority of the task that would run
		best := 0
		for i, tk := range ready {
			if tk.prio > ready[best].prio {
				best = i
			}
		}
		if len(s.pctChange) > 0 && s.steps >= s.pctChange[0] {
			s.pctChange = s.pctChange[1:]
			ready[best].prio = -s.steps
			best = 0
			for i, tk := range ready {
				if tk.prio > ready[best].prio {
					best = i
				}
			}
		}
		// one draw keeps the tape structure uniform and lets shrinking fall back to index 0
		if s.tape.draw(KSched, 16) == 15 {
			pick = s.tape.draw(KSched, n)
		} else {
			pick = best
		}
	default:
		pick = s.tape.draw(KSched, n)
	}
	s.noteSwitch(ready[pick])
	return pick
}

//go:norace
func (s *Sim) noteSwitch(tk *Task) {
	if tk.ID != s.lastPick {
		s.switches++
	}
	s.lastPick = tk.ID
}

//go:norace
func hashStr(h uint64, str string) uint64 {
	for i := 0; i < len(str); i++ {
		h ^= uint64(str[i])
		h *= 1099511628211
	}
	return h
}

//go:norace
func (s *Sim) record(tk *Task) {
	sh := hashStr(14695981039346656037, tk.parkSite)
	sh = hashStr(sh, tk.Class)
	s.schedHash ^= sh
	s.schedHash *= 1099511628211
	if s.lastTask >= 0 && s.lastTask != tk.ID {
		p := s.lastSite*31 ^ sh
		// insert into the open-addressed pair set
		idx := int(p & (pairCap - 1))
		for k := 0; k < 64; k++ {
			j := (idx + k) & (pairCap - 1)
			if s.pairs[j] == p {
				break
			}
			if s.pairs[j] == 0 && s.nPairs < pairCap/2 {
				// compact storage: we keep the set in the table itself, count separately
				s.pairs[j] = p
				s.nPairs++
				break
			}
		}
	}
	s.lastSite = sh
	s.lastTask = tk.ID
	if s.nTr < traceCap {
		s.trTask[s.nTr] = int32(tk.ID)
		s.trSite[s.nTr] = tk.parkSite
		s.trKind[s.nTr] = int8(tk.parkKind)
	}
	s.nTr++
}

// park blocks the calling task until the scheduler releases it.
//
//go:norace
func (s *Sim) park(tk *Task, kind int, site string) {
	tk.parkKind = kind
	tk.parkSite = site
	tk.parkedAt = s.steps
	tk.state = stParked
	select {
	case s.wake <- struct{}{}:
	default:
	}
	<-tk.gate
	if s.over {
		if tk.dying {
			raceEnable()
			runtime.Goexit()
		}
		<-s.never
	}
}

// ---------------------------------------------------------------------------------
// harness-side API

// Draw returns a tape-chosen value in [0,n) for workload generation.
func Draw(n int) int {
	s := active()
	if s == nil {
		return 0
	}
	return s.drawHidden(KWork, n)
}

// DrawFault returns a tape-chosen value in [0,n) for fault decisions.
func DrawFault(n int) int {
	s := active()
	if s == nil {
		return 0
	}
	return s.drawHidden(KFault, n)
}

//go:norace
func (s *Sim) drawHidden(kind uint8, n int) int {
	raceDisable()
	v := s.tape.draw(kind, n)
	raceEnable()
	return v
}

// Chance returns true with probability num/den (tape-chosen, 0 = false).
func Chance(num, den int) bool {
	if num <= 0 {
		return false
	}
	return DrawFault(den) >= den-num
}

// Fail records a violation (the first one wins) and ends the run.
func Fail(rule, sig, format string, args ...interface{}) {
	s := active()
	if s == nil {
		panic(fmt.Sprintf("simrt.Fail outside a run: %s "+format, append([]interface{}{rule}, args...)...))
	}
	s.mu.Lock()
	if s.violation == nil {
		s.violation = &Violation{Rule: rule, Sig: sig, Detail: fmt.Sprintf(format, args...)}
	}
	s.mu.Unlock()
	s.over = true
	if s.overWhy == "" {
		s.overWhy = "violation"
	}
	panic(stopRun{})
}

// Note records a violation without unwinding (used from sinks that must keep draining);
// the run still ends at the next scheduling step.
func Note(rule, sig, format string, args ...interface{}) {
	s := active()
	if s == nil {
		return
	}
	s.mu.Lock()
	if s.violation == nil {
		s.violation = &Violation{Rule: rule, Sig: sig, Detail: fmt.Sprintf(format, args...)}
	}
	s.mu.Unlock()
	s.over = true
}

// Hit counts a reach probe.
func Hit(name string) {
	s := active()
	if s == nil {
		return
	}
	s.mu.Lock()
	s.probes[name]++
	s.mu.Unlock()
}

// Fault counts a fired fault.
func Fault(name string) {
	s := active()
	if s == nil {
		return
	}
	s.mu.Lock()
	s.faults[name]++
	s.mu.Unlock()
}

// Logf appends a note to the run's log (kept in replay files).
func Logf(format string, args ...interface{}) {
	s := active()
	if s == nil {
		return
	}
	s.mu.Lock()
	if len(s.log) < 2000 {
		s.log = append(s.log, fmt.Sprintf(format, args...))
	}
	s.mu.Unlock()
}

// Steps returns the number of scheduler steps so far (the global event sequence number).
//
//go:norace
func Steps() int {
	if s := active(); s != nil {
		return s.steps
	}
	return 0
}

// Stall makes tasks of a class ineligible for the next n scheduler steps.
func Stall(class string, steps int) {
	s := active()
	if s == nil {
		return
	}
	s.stallClass = class
	s.stallFrom = s.steps
	s.stallTo = s.steps + steps
	Fault("stall:" + class)
}

// Unstall ends the current stall window.
func Unstall() {
	if s := active(); s != nil {
		s.stallClass = ""
	}
}

// AliveTasks returns the spawn sites of non-harness tasks that have not finished.
func AliveTasks() []string {
	s := active()
	if s == nil {
		return nil
	}
	var out []string
	for _, tk := range s.tasks {
		if tk.state != stDone && !tk.Harness {
			out = append(out, tk.Site)
		}
	}
	return out
}

// AliveTaskInfo returns "site[state@parksite]" strings for diagnostics.
func AliveTaskInfo() []string {
	s := active()
	if s == nil {
		return nil
	}
	var out []string
	for _, tk := range s.tasks {
		if tk.state != stDone {
			st := "blocked"
			if tk.state == stParked {
				st = "parked"
			}
			out = append(out, fmt.Sprintf("%d:%s[%s@%s]", tk.ID, tk.Site, st, tk.parkSite))
		}
	}
	return out
}

// GoHarness starts a harness task.
func GoHarness(name string, fn func()) {
	s := active()
	if s == nil {
		go fn()
		return
	}
	s.spawn("harness:"+name, true, fn)
}

// Gosched is a plain scheduling point for harness code.
func Gosched() { Y("harness:gosched") }

var _ = runtime.Gosched

// Start returns the fake-clock instant at which the run began.
//
//go:norace
func (s *Sim) Start() time.Time { return s.start }

// Within runs fn in the calling task and reports a violation if it has not returned
// after d of simulated time (liveness: "returns within a bounded time").
func Within(d time.Duration, rule, sig string, fn func()) {
	s := active()
	if s == nil {
		fn()
		return
	}
	done := make(chan struct{})
	GoHarness("watchdog", func() {
		if IdleTimeout(done, d) {
			Note(rule, sig, "operation did not return within %v of simulated time; tasks: %v", d, AliveTaskInfo())
		}
	})
	fn()
	close(done)
}

// StepCost is the virtual CPU time the scheduler charges for every step of the current run.
func StepCost() time.Duration {
	if s := active(); s != nil {
		return s.delta
	}
	return 0
}

// IdleTimeout waits until done is closed (and returns false) or until d of simulated time has passed
// in which the simulated CPU was not busy (and returns true). The scheduler charges StepCost() of simulated
// time for every step it dispatches; with a large step cost a burst of work (a block with thousands of
// records) takes many simulated seconds although nothing ever waits, and a bound stated in plain simulated
// time would then fire on a program that is merely busy. Time charged for steps therefore does not count
// towards d. A program that hangs accumulates idle time (the world sleeps between its events) and is
// still reported; a world that is saturated for good ends at the step budget instead.
func IdleTimeout(done <-chan struct{}, d time.Duration) bool {
	s := active()
	if s == nil {
		tm := time.NewTimer(d)
		defer tm.Stop()
		select {
		case <-done:
			return false
		case <-tm.C:
			return true
		}
	}
	start, steps0 := time.Now(), s.steps
	wait := d
	for {
		tm := time.NewTimer(wait)
		Y("harness:watchdog")
		select {
		case <-done:
			W("harness:watchdog")
			tm.Stop()
			return false
		case <-tm.C:
			W("harness:watchdog")
		}
		idle := time.Since(start) - time.Duration(s.steps-steps0)*s.delta
		if idle >= d {
			return true
		}
		wait = d - idle
		if wait < time.Millisecond {
			wait = time.Millisecond
		}
	}
}

// SleepSim sleeps on the fake clock with scheduling points (for harness files that are
// not instrumented).
func SleepSim(d time.Duration) {
	Y("harness:sleep")
	time.Sleep(d)
	W("harness:sleep")
}
