//go:build go1.25

package simrt

import (
	"encoding/json"
	"fmt"
	"os"
	"path/filepath"
	"runtime"
	"sort"
	"strconv"
	"strings"
	"sync/atomic"
	"testing"
	"time"
)

// Env is what a check's body gets.
type Env struct {
	Conf    string // "nominal" or "faulted"
	Dir     string // per-run sandbox directory (removed after the run unless it failed)
	Run     int
	Replay  bool
	ops     []string
	opHash  uint64
	sample  interface{}
	nontriv bool
}

// Op logs one workload operation / injected fault (rendered in replay files, hashed
// into the run's identity for the distinct-run count).
func (e *Env) Op(format string, args ...interface{}) {
	s := fmt.Sprintf(format, args...)
	e.opHash = hashStr(e.opHash^0x9e3779b97f4a7c15, s)
	if len(e.ops) < 3000 {
		e.ops = append(e.ops, s)
	}
}

// Sample sets the rendered case kept as an evidence sample for this run.
func (e *Env) Sample(v interface{}) { e.sample = v }

// Faulted reports whether this run is in the fault-injecting configuration.
func (e *Env) Faulted() bool { return e.Conf == "faulted" }

// Check is one registered simulation world + oracle.
type Check struct {
	Name     string // e.g. "C07a"
	Property string // e.g. "C07"
	Body     func(env *Env)
	Classify func(site string) string
	MaxSteps int
	// Confs lists the configurations to run (default: nominal, faulted).
	Confs []string
	// Judge turns runtime-level outcomes (crash, deadlock) into a violation or nil.
	// Default: any crash is a violation with signature "panic:<frame>"; a deadlock is a
	// violation "deadlock".
	Judge func(res *Result) *Violation
	// DeadlockAfter overrides the default silence period (simulated) for deadlock detection.
	DeadlockAfter time.Duration
	// Real lists components that ran real code / stubs in this world (copied to evidence).
	Real, Stub []string
}

var registry = map[string]*Check{}

// Register adds a check (called from init functions of harness files).
func Register(c *Check) { registry[c.Name] = c }

// BenignCrash, when set by the harness of a package, classifies a panic of the program under test as a
// documented fail-stop that no property forbids (it returns the name of the probe to count, or "" for any
// other crash). It is consulted before the check's judge.
var BenignCrash func(res *Result) string

func defaultJudge(res *Result) *Violation {
	if res.Crash != nil {
		frame := res.Crash.Frame
		if frame == "" {
			frame = firstLine(res.Crash.Value)
		}
		return &Violation{Rule: "no-panic", Sig: "panic:" + frame, Detail: res.Crash.Value + "\n" + trimStack(res.Crash.Stack)}
	}
	if res.Deadlock {
		return &Violation{Rule: "no-deadlock", Sig: "deadlock", Detail: "every task blocked for ever"}
	}
	return nil
}

func firstLine(s string) string {
	if i := strings.IndexByte(s, '\n'); i >= 0 {
		s = s[:i]
	}
	if len(s) > 120 {
		s = s[:120]
	}
	return s
}

func trimStack(s string) string {
	lines := strings.Split(s, "\n")
	if len(lines) > 40 {
		lines = lines[:40]
	}
	return strings.Join(lines, "\n")
}

// RunOutcome is the judged outcome of one run.
type RunOutcome struct {
	Res       *Result
	Violation *Violation
	Ops       []string
	OpHash    uint64
	Sample    interface{}
	Dir       string
	Races     []RaceReport
}

// execSeq makes sandbox directories unique per execution: a run that leaks an open file
// must not be visible (through /proc/self/fd) to a later replay of the same run index.
var execSeq int

// RunOne executes one run of a check.
func RunOne(t *testing.T, c *Check, conf string, seed uint64, run int, replay []uint32, tmp string, keepTrace bool) *RunOutcome {
	execSeq++
	dir := filepath.Join(tmp, fmt.Sprintf("run-%d-%d-%d", os.Getpid(), run, execSeq))
	os.RemoveAll(dir)
	os.MkdirAll(dir, 0755)
	env := &Env{Conf: conf, Dir: dir, Run: run, Replay: replay != nil}
	cfg := Config{Seed: seed ^ hashStr(0, conf+c.Name), Run: run, Replay: replay, Policy: -1, Classify: c.Classify,
		MaxSteps: c.MaxSteps, KeepTrace: keepTrace, DeadlockAfter: c.DeadlockAfter}
	MapShuffle = false
	ZmqCapture = nil
	CrossDevice = nil
	res := Run(t, cfg, func() { c.Body(env) })
	out := &RunOutcome{Res: res, Ops: env.ops, OpHash: env.opHash, Sample: env.sample, Dir: dir}
	out.Violation = res.Violation
	if res.Crash != nil && BenignCrash != nil {
		if probe := BenignCrash(res); probe != "" {
			// a classified, documented fail-stop of the program: the run simply ended there
			res.Probes[probe]++
			res.Crash = nil
		}
	}
	if out.Violation == nil && !res.Budget {
		judge := c.Judge
		if judge == nil {
			judge = defaultJudge
		}
		out.Violation = judge(res)
	}
	if RaceBuild {
		out.Races = res.Races
		CollectRaceReports() // anything written after the run ended belongs to no run
		if out.Violation == nil {
			for i := range out.Races {
				if r := &out.Races[i]; r.IsProgramRace() {
					out.Violation = &Violation{Rule: c.Property + ".data-race", Sig: r.Signature(), Detail: r.Text}
					break
				}
			}
		}
	}
	return out
}

// ReplayFile is the on-disk form of a failing run.
type ReplayFile struct {
	Property     string   `json:"property"`
	Check        string   `json:"check"`
	Conf         string   `json:"conf"`
	Seed         uint64   `json:"seed"`
	Run          int      `json:"run"`
	Rule         string   `json:"rule"`
	Signature    string   `json:"signature"`
	Detail       string   `json:"detail"`
	Tape         []uint32 `json:"tape"`
	TapeLenRaw   int      `json:"tape_len_before_minimisation"`
	MinimiseRuns int      `json:"minimise_runs"`
	Ops          []string `json:"operations_and_faults"`
	Schedule     []string `json:"schedule"`
	Log          []string `json:"log,omitempty"`
}

// WorkerReport is what one worker process writes.
type WorkerReport struct {
	Check       string         `json:"check"`
	Property    string         `json:"property"`
	Seed        uint64         `json:"seed"`
	RunFrom     int            `json:"run_from"`
	RunsDone    int            `json:"runs_done"`
	PerConf     map[string]int `json:"runs_per_conf"`
	Steps       int64          `json:"steps"`
	Switches    int64          `json:"switches"`
	SimTimeNs   int64          `json:"sim_time_ns"`
	WallS       float64        `json:"wall_s"`
	Hashes      []string       `json:"run_hashes"`
	HashesNT    []string       `json:"run_hashes_nontrivial"`
	Pairs       []string       `json:"context_pairs"`
	Faults      map[string]int `json:"faults_fired"`
	Probes      map[string]int `json:"probes"`
	BudgetRuns  int            `json:"budget_runs"`
	Violations  []ReplayFile   `json:"violations"`
	ReplayPaths []string       `json:"replay_paths"`
	Samples     []interface{}  `json:"samples"`
	Real        []string       `json:"real"`
	Stub        []string       `json:"stub"`
	Unrepro     int            `json:"unreproducible"`
	MaxTasks    int            `json:"max_tasks"`
	Notes       []string       `json:"notes,omitempty"`
}

func envInt(name string, def int) int {
	if v := os.Getenv(name); v != "" {
		if n, err := strconv.Atoi(v); err == nil {
			return n
		}
	}
	return def
}

// Main is the entry point of a harness test binary. Environment:
//
//	VERIF_CHECK      registered check name
//	VERIF_SEED       base seed
//	VERIF_RUN_FROM   first run index, VERIF_RUN_STRIDE stride (worker i of n runs i, i+n, …)
//	VERIF_WALL_S     wall-clock budget for this worker
//	VERIF_MAX_RUNS   maximum number of runs
//	VERIF_OUT        report file
//	VERIF_REPLAY     replay file: run only that tape, report whether it reproduces
//	VERIF_TMP        scratch directory for sandboxes
//	VERIF_REPLAY_DIR where to write replay files
//	VERIF_DETERMINISM=1  print "<run> <hash>" lines for the determinism self-test and exit
func Main(t *testing.T) {
	name := os.Getenv("VERIF_CHECK")
	if name == "" {
		t.Skip("VERIF_CHECK not set")
	}
	c := registry[name]
	if c == nil {
		var names []string
		for k := range registry {
			names = append(names, k)
		}
		sort.Strings(names)
		fmt.Printf("HARNESS-ERROR unknown check %q (have %v)\n", name, names)
		os.Exit(3)
	}
	// One P: timers live on per-P heaps and a due timer on another P's heap fires whenever that
	// P next looks at it, i.e. asynchronously to the scheduler goroutine (synctest.Wait waits for
	// goroutines to block, not for due timers to fire). With a single P every due timer has
	// fired before the next goroutine runs, so a poll of two tickers that expired in the same
	// scheduling step sees both — which the tape then orders.
	runtime.GOMAXPROCS(1)
	tmp := os.Getenv("VERIF_TMP")
	if tmp == "" {
		tmp = os.TempDir()
	}
	os.MkdirAll(tmp, 0755)
	quietStdout()
	// First use of a timer initialises a runtime setting behind a sync.Once. Done here, on the test's
	// own goroutine, it is ordered before everything else; done first by a task and then by the scheduler
	// (whose synchronisation events the race detector is told to ignore) it is reported as a race inside
	// the Go runtime.
	time.NewTimer(time.Hour).Stop()
	time.NewTicker(time.Hour).Stop()
	confs := c.Confs
	if len(confs) == 0 {
		confs = []string{"nominal", "faulted"}
	}

	// real-time watchdog (outside any bubble: real clock)
	var curRun, curConf = -1, ""
	var lastProgress progressClock
	lastProgress.touch()
	go func() {
		for {
			time.Sleep(5 * time.Second)
			if lastProgress.since() > 600*time.Second {
				fmt.Fprintf(realStdout, "HARNESS-ERROR watchdog: run %d conf %s of %s made no progress for 600s real time\n", curRun, curConf, name)
				os.Exit(3)
			}
		}
	}()

	if rp := os.Getenv("VERIF_REPLAY"); rp != "" {
		b, err := os.ReadFile(rp)
		if err != nil {
			fmt.Fprintf(realStdout, "HARNESS-ERROR cannot read replay file: %v\n", err)
			os.Exit(3)
		}
		var rf ReplayFile
		if err := json.Unmarshal(b, &rf); err != nil {
			fmt.Fprintf(realStdout, "HARNESS-ERROR bad replay file: %v\n", err)
			os.Exit(3)
		}
		out := RunOne(t, c, rf.Conf, rf.Seed, rf.Run, rf.Tape, tmp, true)
		os.RemoveAll(out.Dir)
		if tf := os.Getenv("VERIF_REPLAY_TRACE"); tf != "" {
			os.WriteFile(tf, []byte(strings.Join(out.Res.Trace, "\n")+"\n--ops--\n"+strings.Join(out.Ops, "\n")+"\n--log--\n"+strings.Join(out.Res.Log, "\n")+"\n"), 0644)
		}
		// a fresh process reports every race of the run, the finding process only those it had
		// not reported in earlier runs: look for the file's signature among all of them
		for i := range out.Races {
			if r := &out.Races[i]; r.IsProgramRace() && r.Signature() == rf.Signature {
				out.Violation = &Violation{Rule: rf.Rule, Sig: r.Signature(), Detail: r.Text}
			}
		}
		if out.Violation != nil && out.Violation.Sig == rf.Signature && os.Getenv("VERIF_REPLAY_REWRITE") != "" {
			// refresh the rendered parts of the file from this (possibly minimised) tape
			rf.Ops, rf.Schedule, rf.Log, rf.Detail = out.Ops, lastN(out.Res.Trace, 400), lastN(out.Res.Log, 100), out.Violation.Detail
			if nb, err := json.MarshalIndent(rf, "", " "); err == nil {
				os.WriteFile(rp, nb, 0644)
			}
		}
		if out.Violation != nil && out.Violation.Sig == rf.Signature {
			fmt.Fprintf(realStdout, "REPRODUCED property=%s signature=%s\n%s\n", rf.Property, rf.Signature, out.Violation.Detail)
			return
		}
		if out.Violation != nil {
			fmt.Fprintf(realStdout, "DIFFERENT property=%s signature=%s (file has %s)\n%s\n", rf.Property, out.Violation.Sig, rf.Signature, out.Violation.Detail)
			return
		}
		fmt.Fprintf(realStdout, "NOT-REPRODUCED property=%s\n", rf.Property)
		return
	}

	seed := uint64(envInt("VERIF_SEED", 1))
	from := envInt("VERIF_RUN_FROM", 0)
	stride := envInt("VERIF_RUN_STRIDE", 1)
	maxRuns := envInt("VERIF_MAX_RUNS", 1<<30)
	wall := time.Duration(envInt("VERIF_WALL_S", 30)) * time.Second
	replayDir := os.Getenv("VERIF_REPLAY_DIR")
	if replayDir == "" {
		replayDir = tmp
	}
	os.MkdirAll(replayDir, 0755)

	if os.Getenv("VERIF_DETERMINISM") == "1" {
		for i := 0; i < maxRuns; i++ {
			run := from + i*stride
			conf := confs[run%len(confs)]
			lastProgress.touch()
			out := RunOne(t, c, conf, seed, run, nil, tmp, os.Getenv("VERIF_DET_TRACE") != "")
			os.RemoveAll(out.Dir)
			if d := os.Getenv("VERIF_DET_TRACE"); d != "" {
				os.WriteFile(filepath.Join(d, fmt.Sprintf("trace-%d.txt", run)), []byte(strings.Join(out.Res.Trace, "\n")+"\n--ops--\n"+strings.Join(out.Ops, "\n")+"\n--log--\n"+strings.Join(out.Res.Log, "\n")+"\n"), 0644)
			}
			v := ""
			if out.Violation != nil {
				v = out.Violation.Sig
			}
			fmt.Fprintf(realStdout, "DET %d %s %016x %016x steps=%d tape=%d viol=%q budget=%v kinds=%v\n", run, conf, out.Res.SchedHash, out.OpHash, out.Res.Steps, len(out.Res.Tape), v, out.Res.Budget, out.Res.KindCounts)
		}
		return
	}

	rep := &WorkerReport{Check: c.Name, Property: c.Property, Seed: seed, RunFrom: from, PerConf: map[string]int{},
		Faults: map[string]int{}, Probes: map[string]int{}, Real: c.Real, Stub: c.Stub}
	hashes := map[uint64]struct{}{}
	hashesNT := map[uint64]struct{}{}
	pairs := map[uint64]struct{}{}
	sigSeen := map[string]bool{}
	startWall := time.Now()
	for i := 0; i < maxRuns && time.Since(startWall) < wall; i++ {
		run := from + i*stride
		conf := confs[run%len(confs)]
		curRun, curConf = run, conf
		lastProgress.touch()
		out := RunOne(t, c, conf, seed, run, nil, tmp, false)
		res := out.Res
		rep.RunsDone++
		rep.PerConf[conf]++
		rep.Steps += int64(res.Steps)
		rep.Switches += int64(res.Switches)
		rep.SimTimeNs += int64(res.SimTime)
		if res.TasksMade > rep.MaxTasks {
			rep.MaxTasks = res.TasksMade
		}
		if res.Budget {
			rep.BudgetRuns++
			if len(rep.Notes) < 5 {
				rep.Notes = append(rep.Notes, fmt.Sprintf("run %d: budget exhausted (steps=%d) %v", run, res.Steps, lastN(res.Log, 3)))
			}
		}
		h := res.SchedHash ^ (out.OpHash * 0x9e3779b97f4a7c15)
		if len(hashes) < 300000 {
			hashes[h] = struct{}{}
		}
		nontrivial := false
		for k, v := range res.Faults {
			rep.Faults[k] += v
			if v > 0 {
				nontrivial = true
			}
		}
		for k, v := range res.Probes {
			rep.Probes[k] += v
			if v > 0 {
				nontrivial = true
			}
		}
		if nontrivial && len(hashesNT) < 300000 {
			hashesNT[h] = struct{}{}
		}
		for p := range res.PairSet {
			pairs[p] = struct{}{}
		}
		if out.Sample != nil && len(rep.Samples) < 3 && (i%7 == 0 || len(rep.Samples) == 0) {
			rep.Samples = append(rep.Samples, map[string]interface{}{"run": run, "conf": conf, "steps": res.Steps,
				"sim_time": res.SimTime.String(), "policy": res.Policy, "case": out.Sample, "faults": res.Faults, "probes": res.Probes})
		}
		for i := range out.Races {
			switch r := &out.Races[i]; {
			case r.IsProgramRace():
				rep.Probes["race-report:program"]++
			case r.HarnessMade:
				rep.Probes["race-report:harness-made(ignored)"]++
				if len(rep.Notes) < 8 {
					rep.Notes = append(rep.Notes, "harness-made race report in run "+strconv.Itoa(run)+":\n"+firstN(r.Text, 1500))
				}
			default:
				rep.Probes["race-report:outside-module(ignored)"]++
				if len(rep.Notes) < 8 {
					rep.Notes = append(rep.Notes, "race report outside the module in run "+strconv.Itoa(run)+":\n"+firstN(r.Text, 1500))
				}
			}
		}
		if out.Violation == nil {
			os.RemoveAll(out.Dir)
			continue
		}
		// ---- a violation: confirm, minimise, write the replay file
		v := out.Violation
		os.RemoveAll(out.Dir)
		if sigSeen[v.Sig] {
			continue // one replay file per signature per worker
		}
		if RaceBuild {
			// the detector reports a pair of stacks once per process: confirmation and
			// minimisation happen in fresh processes (bin/vcheck), not here
			sigSeen[v.Sig] = true
			rf := ReplayFile{Property: c.Property, Check: c.Name, Conf: conf, Seed: seed, Run: run, Rule: v.Rule, Signature: v.Sig,
				Detail: v.Detail, Tape: res.Tape, TapeLenRaw: len(res.Tape), Ops: out.Ops, Log: lastN(res.Log, 100)}
			path := filepath.Join(replayDir, fmt.Sprintf("%s-%s-%d-%d.json", c.Property, c.Name, seed, run))
			b, _ := json.MarshalIndent(rf, "", " ")
			os.WriteFile(path, b, 0644)
			rep.Violations = append(rep.Violations, rf)
			rep.ReplayPaths = append(rep.ReplayPaths, path)
			continue
		}
		lastProgress.touch()
		again := RunOne(t, c, conf, seed, run, res.Tape, tmp, false)
		os.RemoveAll(again.Dir)
		if again.Violation == nil || again.Violation.Sig != v.Sig {
			rep.Unrepro++
			rep.Notes = append(rep.Notes, fmt.Sprintf("run %d: violation %q did not reproduce on replay (got %v)", run, v.Sig, again.Violation))
			continue
		}
		sigSeen[v.Sig] = true
		minStart := time.Now()
		test := func(cand []uint32) bool {
			if time.Since(minStart) > minimiseWall {
				return false
			}
			lastProgress.touch()
			o := RunOne(t, c, conf, seed, run, cand, tmp, false)
			os.RemoveAll(o.Dir)
			return o.Violation != nil && o.Violation.Sig == v.Sig
		}
		minTape, used := Minimize(res.Tape, test, 400)
		lastProgress.touch()
		final := RunOne(t, c, conf, seed, run, minTape, tmp, true)
		os.RemoveAll(final.Dir)
		if final.Violation == nil || final.Violation.Sig != v.Sig {
			// should not happen (Minimize only keeps failing candidates); fall back
			minTape = res.Tape
			final = RunOne(t, c, conf, seed, run, minTape, tmp, true)
			os.RemoveAll(final.Dir)
		}
		rf := ReplayFile{Property: c.Property, Check: c.Name, Conf: conf, Seed: seed, Run: run, Rule: v.Rule, Signature: v.Sig,
			Tape: minTape, TapeLenRaw: len(res.Tape), MinimiseRuns: used, Ops: final.Ops, Schedule: lastN(final.Res.Trace, 400), Log: lastN(final.Res.Log, 100)}
		if final.Violation != nil {
			rf.Detail = final.Violation.Detail
		} else {
			rf.Detail = v.Detail
		}
		path := filepath.Join(replayDir, fmt.Sprintf("%s-%s-%d-%d.json", c.Property, c.Name, seed, run))
		b, _ := json.MarshalIndent(rf, "", " ")
		os.WriteFile(path, b, 0644)
		rf.Schedule = nil
		rep.Violations = append(rep.Violations, rf)
		rep.ReplayPaths = append(rep.ReplayPaths, path)
	}
	rep.WallS = time.Since(startWall).Seconds()
	for h := range hashes {
		rep.Hashes = append(rep.Hashes, strconv.FormatUint(h, 16))
	}
	for h := range hashesNT {
		rep.HashesNT = append(rep.HashesNT, strconv.FormatUint(h, 16))
	}
	for p := range pairs {
		rep.Pairs = append(rep.Pairs, strconv.FormatUint(p, 16))
	}
	if outp := os.Getenv("VERIF_OUT"); outp != "" {
		b, _ := json.Marshal(rep)
		if err := os.WriteFile(outp, b, 0644); err != nil {
			fmt.Fprintf(realStdout, "HARNESS-ERROR cannot write report: %v\n", err)
			os.Exit(3)
		}
	}
}

func firstN(s string, n int) string {
	if len(s) > n {
		return s[:n]
	}
	return s
}

func lastN(s []string, n int) []string {
	if len(s) > n {
		return s[len(s)-n:]
	}
	return s
}

var realStdout = os.Stdout

// minimiseWall bounds the real time spent shrinking one violation.
var minimiseWall = time.Duration(envInt("VERIF_MINIMISE_S", 20)) * time.Second

// quietStdout points os.Stdout at /dev/null: the code under test prints a lot.
func quietStdout() {
	if os.Getenv("VERIF_VERBOSE") == "1" {
		return
	}
	if f, err := os.OpenFile("/dev/null", os.O_WRONLY, 0); err == nil {
		os.Stdout = f
	}
}

type progressClock struct{ ns atomic.Int64 }

func (p *progressClock) touch() { p.ns.Store(time.Now().UnixNano()) }
func (p *progressClock) since() time.Duration {
	return time.Duration(time.Now().UnixNano() - p.ns.Load())
}
