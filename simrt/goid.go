package simrt

import (
	"runtime"
	"unsafe"
)

func getg() uintptr

// goidOffset is the byte offset of the goid field inside the runtime's g struct,
// discovered at start-up by comparing with the id parsed from runtime.Stack in several
// goroutines (0 = not found: fall back to the slow path).
var goidOffset uintptr

func init() {
	type probe struct {
		g  uintptr
		id uint64
	}
	ch := make(chan probe)
	for i := 0; i < 4; i++ {
		go func() { ch <- probe{getg(), slowGoid()} }()
	}
	var ps []probe
	ps = append(ps, probe{getg(), slowGoid()})
	for i := 0; i < 4; i++ {
		ps = append(ps, <-ch)
	}
	for off := uintptr(0); off < 512; off += 8 {
		ok := true
		for _, p := range ps {
			if load64(p.g+off) != p.id {
				ok = false
				break
			}
		}
		if ok {
			goidOffset = off
			return
		}
	}
}

// goid returns the current goroutine's id.
//
//go:norace
func goid() uint64 {
	if goidOffset != 0 {
		return load64(getg() + goidOffset)
	}
	return slowGoid()
}

// slowGoid parses "goroutine 123 [running]:" from runtime.Stack.
//
//go:norace
func slowGoid() uint64 {
	var buf [40]byte
	n := runtime.Stack(buf[:], false)
	var id uint64
	for i := 10; i < n; i++ {
		c := buf[i]
		if c < '0' || c > '9' {
			break
		}
		id = id*10 + uint64(c-'0')
	}
	return id
}

//go:nocheckptr
//go:norace
func load64(p uintptr) uint64 { return *(*uint64)(unsafe.Pointer(p)) }
