package simrt

import (
	"errors"
	"net"
)

// NetListen replaces net.Listen. Inside a simulation no socket is bound (parallel workers would
// collide on fixed ports and a real socket stalls the bubble): the listener returned never accepts
// a connection, so code that starts its RPC server can run unchanged while the harness calls the
// server's methods directly.
func NetListen(network, address string) (net.Listener, error) {
	if active() == nil {
		return net.Listen(network, address)
	}
	return &stubListener{closed: make(chan struct{}), addr: stubAddr{network, address}}, nil
}

type stubAddr struct{ network, address string }

func (a stubAddr) Network() string { return a.network }
func (a stubAddr) String() string  { return a.address }

type stubListener struct {
	closed chan struct{}
	addr   stubAddr
}

func (l *stubListener) Accept() (net.Conn, error) {
	<-l.closed
	return nil, errors.New("listener closed")
}

func (l *stubListener) Close() error {
	select {
	case <-l.closed:
	default:
		close(l.closed)
	}
	return nil
}

func (l *stubListener) Addr() net.Addr { return l.addr }
