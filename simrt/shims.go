package simrt

import (
	"fmt"
	"math/rand"
	"os"
	"os/signal"
	"path/filepath"
	"strings"
	"syscall"
	"time"
)

// FaultFS is the per-run file-system fault plan consulted by the os shims (and by
// harness-provided afero file systems through FSOp).
type FaultFS struct {
	// Ops counts interposed file-system operations since the plan was installed.
	Ops int
	// CrashAt >= 0: the task performing operation number CrashAt (0-based) is killed
	// *before* the operation happens (process-kill semantics for everything the task
	// would have done afterwards).
	CrashAt int
	// FailAt >= 0: operation number FailAt returns FailErr instead of being performed.
	FailAt  int
	FailErr error
	// FailMatch, if set, restricts FailAt counting to operations whose "op path" string
	// contains it.
	FailMatch string
	matched   int
	// TmpDir is where CreateTemp("") files go; TmpSeq numbers them.
	TmpDir string
	TmpSeq int
	// Log of operations (op + " " + path), kept for traces.
	Log []string
	// Fired is set when the planned fault actually happened.
	Fired bool
	// FullMatch is the "disk full" fault for a class of files: an OsCreate (or an OsOpenFile for
	// writing) of a path that contains one of these substrings creates the (empty) file but returns a
	// handle on /dev/full instead, so that every later write through the handle fails with ENOSPC.
	// Of the matching creations, number FullFrom (0-based) and the FullCount-1 following ones are
	// affected (FullCount <= 0: all from FullFrom on). No effect while FullMatch is empty.
	FullMatch []string
	FullFrom  int
	FullCount int
	fullSeen  int
	// FullFired counts the handles that were replaced.
	FullFired int
}

// fullDiskHit decides whether the creation of name is hit by the disk-full fault.
func (fs *FaultFS) fullDiskHit(name string) bool {
	for _, m := range fs.FullMatch {
		if m == "" || !strings.Contains(name, m) {
			continue
		}
		idx := fs.fullSeen
		fs.fullSeen++
		if idx >= fs.FullFrom && (fs.FullCount <= 0 || idx < fs.FullFrom+fs.FullCount) {
			fs.FullFired++
			Fault("fulldisk:" + m)
			return true
		}
		return false
	}
	return false
}

// openFull creates name (empty, as a full disk still does) and returns a handle whose writes fail.
func openFull(name string) (*os.File, error) {
	f, err := os.Create(name)
	if err != nil {
		return nil, err
	}
	f.Close()
	return os.OpenFile("/dev/full", os.O_WRONLY, 0)
}

// NewFaultFS returns a plan with no fault.
func NewFaultFS(tmp string) *FaultFS { return &FaultFS{CrashAt: -1, FailAt: -1, TmpDir: tmp} }

// CrashHere is the panic value that kills a task at a crash point. It is not a crash of
// the program under test and does not end the run.
type CrashHere struct{ Op string }

// FSOp is called before every interposed file-system operation.
func FSOp(op, path string) error {
	s := active()
	if s == nil || s.FS == nil {
		return nil
	}
	fs := s.FS
	idx := fs.Ops
	fs.Ops++
	if len(fs.Log) < 4096 {
		fs.Log = append(fs.Log, op+" "+path)
	}
	if fs.CrashAt >= 0 && idx == fs.CrashAt {
		fs.Fired = true
		Fault("crash:" + op)
		panic(CrashHere{Op: fmt.Sprintf("%d:%s %s", idx, op, filepath.Base(path))})
	}
	if fs.FailAt >= 0 {
		if fs.FailMatch == "" || strings.Contains(op+" "+path, fs.FailMatch) {
			m := fs.matched
			fs.matched++
			if m == fs.FailAt {
				fs.Fired = true
				Fault("ioerr:" + op)
				err := fs.FailErr
				if err == nil {
					err = syscall.EIO
				}
				return &os.PathError{Op: op, Path: path, Err: err}
			}
		}
	}
	return nil
}

// SetFS installs the fault plan for the current run.
func SetFS(fs *FaultFS) {
	if s := active(); s != nil {
		s.FS = fs
	}
}

func OsCreate(name string) (*os.File, error) {
	if err := FSOp("create", name); err != nil {
		return nil, err
	}
	if s := active(); s != nil && s.FS != nil && len(s.FS.FullMatch) > 0 && s.FS.fullDiskHit(name) {
		return openFull(name)
	}
	return os.Create(name)
}

func OsOpenFile(name string, flag int, perm os.FileMode) (*os.File, error) {
	if err := FSOp("openfile", name); err != nil {
		return nil, err
	}
	if s := active(); s != nil && s.FS != nil && len(s.FS.FullMatch) > 0 && flag&(os.O_WRONLY|os.O_RDWR) != 0 && flag&os.O_CREATE != 0 && s.FS.fullDiskHit(name) {
		return openFull(name)
	}
	return os.OpenFile(name, flag, perm)
}

func OsOpen(name string) (*os.File, error) {
	if err := FSOp("open", name); err != nil {
		return nil, err
	}
	return os.Open(name)
}

func OsMkdirAll(path string, perm os.FileMode) error {
	if err := FSOp("mkdirall", path); err != nil {
		return err
	}
	return os.MkdirAll(path, perm)
}

func OsMkdir(path string, perm os.FileMode) error {
	if err := FSOp("mkdir", path); err != nil {
		return err
	}
	return os.Mkdir(path, perm)
}

func OsStat(name string) (os.FileInfo, error) {
	// Stat is a query; it is counted but only fails when explicitly matched.
	if err := FSOp("stat", name); err != nil {
		return nil, err
	}
	return os.Stat(name)
}

func OsRemove(name string) error {
	if err := FSOp("remove", name); err != nil {
		return err
	}
	return os.Remove(name)
}

// CrossDevice, when set, is the run's map of file-system boundaries: it tells whether oldpath and
// newpath lie in different (simulated) file systems. It is part of the ENVIRONMENT of a run, not a
// fault: it is consulted by the rename and hard-link shims whether or not a fault plan is installed,
// and such an operation fails the way the kernel makes it fail (EXDEV in an *os.LinkError) without
// touching the files. The sandbox of a run is one real file system, so without this a deployment
// whose temp directory is a tmpfs cannot be told from one where everything shares a disk.
// Reset before every run (RunOne); set by the check body (SetCrossDevice).
var CrossDevice func(oldpath, newpath string) bool

// SetCrossDevice installs the file-system boundaries of the current run (nil: one file system).
func SetCrossDevice(fn func(oldpath, newpath string) bool) { CrossDevice = fn }

// CrossDeviceErr returns the error of a rename or link (op) from oldpath to newpath when the two
// lie in different simulated file systems, nil otherwise. Harness file systems (afero wrappers)
// call it for their own Rename so that both routes to the disk agree.
func CrossDeviceErr(op, oldpath, newpath string) error {
	if active() == nil || CrossDevice == nil || !CrossDevice(oldpath, newpath) {
		return nil
	}
	Hit("cross-device:" + op)
	return &os.LinkError{Op: op, Old: oldpath, New: newpath, Err: syscall.EXDEV}
}

func OsRename(oldpath, newpath string) error {
	if err := FSOp("rename", oldpath+" -> "+newpath); err != nil {
		return err
	}
	if err := CrossDeviceErr("rename", oldpath, newpath); err != nil {
		return err
	}
	return os.Rename(oldpath, newpath)
}

func OsLink(oldname, newname string) error {
	if err := FSOp("link", oldname+" -> "+newname); err != nil {
		return err
	}
	if err := CrossDeviceErr("link", oldname, newname); err != nil {
		return err
	}
	return os.Link(oldname, newname)
}

func OsReadFile(name string) ([]byte, error) {
	if err := FSOp("readfile", name); err != nil {
		return nil, err
	}
	return os.ReadFile(name)
}

func OsCreateTemp(dir, pattern string) (*os.File, error) {
	s := active()
	if s == nil || s.FS == nil {
		return os.CreateTemp(dir, pattern)
	}
	if err := FSOp("createtemp", pattern); err != nil {
		return nil, err
	}
	if dir == "" {
		dir = s.FS.TmpDir
	}
	s.FS.TmpSeq++
	name := strings.Replace(pattern, "*", fmt.Sprintf("%06d", s.FS.TmpSeq), 1)
	return os.OpenFile(filepath.Join(dir, name), os.O_RDWR|os.O_CREATE|os.O_TRUNC, 0600)
}

// ---- math/rand top-level functions

func RandIntn(n int) int {
	if s := active(); s != nil && lookupTask() != nil {
		return s.drawHidden(KWork, n)
	}
	return rand.Intn(n)
}

func RandInt63n(n int64) int64 {
	if s := active(); s != nil && lookupTask() != nil {
		if n > 1<<30 {
			return int64(s.drawHidden(KWork, 1<<30))<<30 | int64(s.drawHidden(KWork, 1<<30))%n
		}
		return int64(s.drawHidden(KWork, int(n)))
	}
	return rand.Int63n(n)
}

func RandInt31n(n int32) int32 { return int32(RandIntn(int(n))) }

func RandFloat64() float64 {
	if s := active(); s != nil && lookupTask() != nil {
		return float64(s.drawHidden(KWork, 1<<24)) / float64(1<<24)
	}
	return rand.Float64()
}

func RandInt() int { return RandIntn(1 << 30) }

// ---- os/signal

func SignalNotify(c chan<- os.Signal, sig ...os.Signal) {
	if active() != nil {
		return // a signal.Notify inside the bubble would start a non-bubbled runtime goroutine dependency
	}
	signal.Notify(c, sig...)
}

func SignalStop(c chan<- os.Signal) {
	if active() != nil {
		return
	}
	signal.Stop(c)
}

// ---- ZMQ (by interface, so that simrt has no third-party import)

type zmqBinder interface{ Bind(string) error }
type zmqSender interface {
	SendMessage(parts ...interface{}) (int, error)
}

// ZmqCapture, when set, receives every message the program sends while a simulation
// is active (the socket is left unbound).
var ZmqCapture func(parts []interface{})

func ZmqBind(sock zmqBinder, endpoint string) error {
	if active() != nil {
		return nil // ports would collide between parallel workers; messages are captured instead
	}
	return sock.Bind(endpoint)
}

func ZmqSendMessage(sock zmqSender, parts ...interface{}) (int, error) {
	if active() != nil {
		if ZmqCapture != nil {
			ZmqCapture(parts)
		}
		return 0, nil
	}
	return sock.SendMessage(parts...)
}

// ---- timers
//
// Two timers created in the same scheduling step start at the same fake instant, so tickers
// whose periods divide each other (a 50 ms data ticker and a 1 s heartbeat ticker made by one
// goroutine) expire at exactly the same nanosecond over and over. A goroutine blocked in a
// select on both is then woken by whichever the runtime's timer heap happens to serve first,
// which no seed controls. Creating a timer therefore costs a little virtual CPU time: a few
// nanoseconds, different for consecutive creations, so equal expiry instants do not arise.

var timerSkewCounter int

//go:norace
func timerSkew() {
	s := active()
	if s == nil {
		return
	}
	tk := lookupTask()
	if tk == nil || tk.dying {
		return
	}
	timerSkewCounter++
	time.Sleep(time.Duration(3+7*(timerSkewCounter%97)) * time.Nanosecond)
}

func TimeNewTicker(d time.Duration) *time.Ticker { timerSkew(); return time.NewTicker(d) }
func TimeNewTimer(d time.Duration) *time.Timer   { timerSkew(); return time.NewTimer(d) }
func TimeAfter(d time.Duration) <-chan time.Time { timerSkew(); return time.After(d) }
func TimeTick(d time.Duration) <-chan time.Time  { timerSkew(); return time.Tick(d) }
