package simrt

// The choice tape: every nondeterministic decision of a run (task pick, select order,
// map order, virtual CPU step, fault yes/no and parameters, workload operations and their
// arguments) is one Draw. In generation mode the value comes from a splitmix64 stream
// seeded from (VERIF_SEED, run index) and is appended to the tape; in replay mode the
// recorded value is returned (reduced modulo n so that a shrunk tape is always valid) and
// 0 past the end. 0 always means "simplest choice": first ready task, no fault, first
// operation kind, smallest size.

// Kinds of draws, recorded next to each value so traces can be rendered.
const (
	KSched  = 1 // which ready task runs next
	KSelect = 2 // priority order of select cases
	KMap    = 3 // map iteration order
	KDelta  = 4 // virtual CPU time per step
	KFault  = 5 // fault decisions and parameters
	KWork   = 6 // workload generation
	KPolicy = 7 // per-run policy / swarm configuration
)

var kindNames = map[uint8]string{KSched: "sched", KSelect: "select", KMap: "map", KDelta: "delta", KFault: "fault", KWork: "work", KPolicy: "policy"}

// TapeCap is the preallocated room of a generating tape (draws per run).
var TapeCap = 1 << 20

// generating tapes reuse one process-global buffer (one run at a time)
var (
	gTapeVals  []uint32
	gTapeKinds []uint8
)

// Tape is the recorded choice sequence of one run.
type Tape struct {
	Vals  []uint32
	Kinds []uint8
	pos   int
	// Overflow is set when a generating tape ran out of its preallocated room; the run
	// is then not replayable and is reported as a budget overrun, never as a verdict.
	Overflow bool
	// generation
	replay bool
	state  uint64
}

func mix64(z uint64) uint64 {
	z += 0x9e3779b97f4a7c15
	z = (z ^ (z >> 30)) * 0xbf58476d1ce4e5b9
	z = (z ^ (z >> 27)) * 0x94d049bb133111eb
	return z ^ (z >> 31)
}

// NewTape makes a generating tape for (seed, run).
func NewTape(seed uint64, run int) *Tape {
	if cap(gTapeVals) < TapeCap {
		gTapeVals = make([]uint32, 0, TapeCap)
		gTapeKinds = make([]uint8, 0, TapeCap)
	}
	return &Tape{state: mix64(mix64(seed) ^ uint64(run)*0x9e3779b97f4a7c15), Vals: gTapeVals[:0], Kinds: gTapeKinds[:0]}
}

// ReplayTape makes a replaying tape from recorded values.
func ReplayTape(vals []uint32) *Tape {
	v := make([]uint32, len(vals))
	copy(v, vals)
	return &Tape{replay: true, Vals: v, Kinds: make([]uint8, 0, len(vals)+16)}
}

//go:norace
func (t *Tape) next() uint64 {
	t.state += 0x9e3779b97f4a7c15
	z := t.state
	z = (z ^ (z >> 30)) * 0xbf58476d1ce4e5b9
	z = (z ^ (z >> 27)) * 0x94d049bb133111eb
	return z ^ (z >> 31)
}

// draw returns a value in [0,n). n<=1 returns 0 without consuming the tape.
//
//go:norace
func (t *Tape) draw(kind uint8, n int) int {
	if n <= 1 {
		return 0
	}
	if t.replay {
		if t.pos >= len(t.Vals) {
			t.pos++
			return 0
		}
		v := int(t.Vals[t.pos] % uint32(n))
		t.pos++
		if len(t.Kinds) < cap(t.Kinds) {
			t.Kinds = append(t.Kinds, kind)
		}
		return v
	}
	v := int(t.next() % uint64(n))
	if len(t.Vals) < cap(t.Vals) {
		// never grows: growslice is race-instrumented and this runs in hidden regions
		t.Vals = append(t.Vals, uint32(v))
		t.Kinds = append(t.Kinds, kind)
	} else {
		t.Overflow = true
	}
	t.pos++
	return v
}

// Used reports how many draws the run consumed.
func (t *Tape) Used() int { return t.pos }

// Snapshot returns the recorded values (generation) or the consumed prefix (replay).
func (t *Tape) Snapshot() []uint32 {
	n := len(t.Vals)
	if t.replay && t.pos < n {
		n = t.pos
	}
	out := make([]uint32, n)
	copy(out, t.Vals[:n])
	return out
}

// Minimize shrinks a failing tape while test(candidate) keeps returning true.
// Strategy: cut the tail, delete blocks (n/2 … 1), zero blocks, lower single values.
// budget is the maximum number of candidate runs.
func Minimize(tape []uint32, test func([]uint32) bool, budget int) ([]uint32, int) {
	cur := append([]uint32(nil), tape...)
	used := 0
	try := func(c []uint32) bool {
		if used >= budget {
			return false
		}
		used++
		return test(c)
	}
	// 1. cut the tail (binary search for the shortest failing prefix, zeros beyond)
	lo, hi := 0, len(cur)
	for lo < hi && used < budget {
		mid := (lo + hi) / 2
		if try(cur[:mid]) {
			hi = mid
		} else {
			lo = mid + 1
		}
	}
	if hi < len(cur) && try(cur[:hi]) {
		cur = append([]uint32(nil), cur[:hi]...)
	}
	// strip trailing zeros (equivalent by construction)
	for len(cur) > 0 && cur[len(cur)-1] == 0 {
		cur = cur[:len(cur)-1]
	}
	// 2. zero blocks, then delete blocks
	for pass := 0; pass < 2 && used < budget; pass++ {
		for size := len(cur) / 2; size >= 1 && used < budget; size /= 2 {
			for start := 0; start+size <= len(cur) && used < budget; {
				cand := append([]uint32(nil), cur...)
				changed := false
				if pass == 0 {
					for i := start; i < start+size; i++ {
						if cand[i] != 0 {
							cand[i] = 0
							changed = true
						}
					}
				} else {
					cand = append(cand[:start], cand[start+size:]...)
					changed = true
				}
				if changed && try(cand) {
					cur = cand
					if pass == 0 {
						start += size
					}
				} else {
					start += size
				}
			}
		}
		for len(cur) > 0 && cur[len(cur)-1] == 0 {
			cur = cur[:len(cur)-1]
		}
	}
	// 3. lower single values
	for i := 0; i < len(cur) && used < budget; i++ {
		if cur[i] == 0 {
			continue
		}
		for _, v := range []uint32{0, 1, cur[i] / 2, cur[i] - 1} {
			if v >= cur[i] {
				continue
			}
			cand := append([]uint32(nil), cur...)
			cand[i] = v
			if try(cand) {
				cur = cand
				break
			}
		}
	}
	for len(cur) > 0 && cur[len(cur)-1] == 0 {
		cur = cur[:len(cur)-1]
	}
	return cur, used
}
