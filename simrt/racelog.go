package simrt

// Collection of the race detector's reports (C17). The test binary is started with
// GORACE="log_path=<p> halt_on_error=0": the race runtime appends every report to the file
// <p>.<pid> at the moment it detects it, so the bytes added to that file during one simulated
// run are the reports of that run. The detector reports a given pair of stacks once per
// process, which is why a race violation is confirmed and minimised by replaying its tape in
// fresh processes (bin/vcheck does that), never in the process that found it.

import (
	"fmt"
	"os"
	"path/filepath"
	"sort"
	"strings"
)

// ModuleUnderTest is the import-path prefix of the code whose races count.
var ModuleUnderTest = "github.com/usnistgov/dastard"

// RaceReport is one parsed report.
type RaceReport struct {
	Text string
	// Funcs holds, for each of the two conflicting accesses, the innermost function of the
	// module under test on its stack ("" if the stack has none).
	Funcs [2]string
	// HarnessMade: at least one access was made directly by harness code (a zz_verif file is
	// the innermost module frame), i.e. the harness peeked at the program's memory.
	HarnessMade bool
}

// IsProgramRace reports whether both accesses were made by code of the module under test.
func (r *RaceReport) IsProgramRace() bool {
	return !r.HarnessMade && r.Funcs[0] != "" && r.Funcs[1] != ""
}

// Signature identifies the defect: the unordered pair of innermost functions.
func (r *RaceReport) Signature() string {
	f := []string{r.Funcs[0], r.Funcs[1]}
	sort.Strings(f)
	return "race:" + f[0] + " <-> " + f[1]
}

var raceLogFile string
var raceLogOff int64

func raceLogPath() string {
	if raceLogFile != "" {
		return raceLogFile
	}
	for _, kv := range strings.Fields(os.Getenv("GORACE")) {
		if strings.HasPrefix(kv, "log_path=") {
			raceLogFile = fmt.Sprintf("%s.%d", strings.TrimPrefix(kv, "log_path="), os.Getpid())
		}
	}
	return raceLogFile
}

// CollectRaceReports returns the reports written since the previous call.
func CollectRaceReports() []RaceReport {
	if !RaceBuild {
		return nil
	}
	p := raceLogPath()
	if p == "" {
		return nil
	}
	b, err := os.ReadFile(p)
	if err != nil || int64(len(b)) <= raceLogOff {
		return nil
	}
	chunk := string(b[raceLogOff:])
	// only consume complete reports (a report ends with a line of '=')
	const bar = "=================="
	last := strings.LastIndex(chunk, bar)
	if last < 0 {
		return nil
	}
	chunk = chunk[:last+len(bar)]
	raceLogOff += int64(len(chunk))
	var out []RaceReport
	for _, part := range strings.Split(chunk, bar) {
		if !strings.Contains(part, "WARNING: DATA RACE") {
			continue
		}
		out = append(out, parseRaceReport(part))
	}
	return out
}

func isAccessHeader(l string) bool {
	if !strings.Contains(l, " by ") || !strings.HasSuffix(strings.TrimSpace(l), ":") {
		return false
	}
	for _, p := range []string{"Read at ", "Write at ", "Previous read at ", "Previous write at ", "Atomic read at ", "Atomic write at ",
		"Previous atomic read at ", "Previous atomic write at "} {
		if strings.HasPrefix(l, p) {
			return true
		}
	}
	return false
}

func parseRaceReport(text string) RaceReport {
	r := RaceReport{Text: strings.TrimSpace(text)}
	lines := strings.Split(text, "\n")
	acc := -1
	inAccess := false
	for i := 0; i < len(lines); i++ {
		l := lines[i]
		if isAccessHeader(l) {
			acc++
			inAccess = acc < 2
			continue
		}
		if strings.TrimSpace(l) == "" || (!strings.HasPrefix(l, "  ")) {
			if strings.TrimSpace(l) == "" {
				inAccess = false
			}
			continue
		}
		if !inAccess || acc > 1 || r.Funcs[acc] != "" {
			continue
		}
		// a frame: "  func()" followed by "      file:line +0x.."
		if strings.HasPrefix(l, "      ") {
			continue
		}
		fn := strings.TrimSpace(l)
		file := ""
		if i+1 < len(lines) {
			file = strings.TrimSpace(lines[i+1])
		}
		if !strings.HasPrefix(fn, ModuleUnderTest) {
			continue
		}
		base := filepath.Base(strings.Fields(file + " x")[0])
		if strings.HasPrefix(base, "zz_verif") {
			r.HarnessMade = true
			r.Funcs[acc] = "harness"
			continue
		}
		fn = strings.TrimPrefix(fn, ModuleUnderTest)
		fn = strings.TrimPrefix(fn, ".")
		fn = strings.TrimPrefix(fn, "/")
		if j := strings.LastIndex(fn, "("); j > 0 && strings.HasSuffix(fn, ")") {
			// drop the argument list "()" at the end, keep receiver parentheses
			if fn[j:] == "()" {
				fn = fn[:j]
			}
		}
		r.Funcs[acc] = fn
	}
	return r
}
