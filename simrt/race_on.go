//go:build race

package simrt

import "runtime"

// RaceBuild reports whether the binary was built with -race.
const RaceBuild = true

func raceDisable() { runtime.RaceDisable() }
func raceEnable()  { runtime.RaceEnable() }
