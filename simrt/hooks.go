package simrt

import (
	"fmt"
	"sort"
	"sync"
)

// Y is a scheduling point placed before an operation that may block or hand control to
// another goroutine. No-op outside a simulation and for goroutines that are not tasks.
// A task may park while it holds a mutex: every acquisition in instrumented code is a TryLock
// loop (Lock below), so nobody ever blocks on a held mutex in a way the bubble cannot see.
//
//go:norace
func Y(site string) {
	s := active()
	if s == nil {
		return
	}
	tk := lookupTask()
	if tk == nil || tk.dying {
		return
	}
	raceDisable()
	s.park(tk, pkYield, site)
	raceEnable()
}

// W is the wake-up point placed after an operation that may have blocked: the task
// parks again so that a goroutine woken by somebody else's channel operation or by a
// timer does not run ahead of the scheduler.
//
//go:norace
func W(site string) {
	s := active()
	if s == nil {
		return
	}
	tk := lookupTask()
	if tk == nil || tk.dying {
		return
	}
	raceDisable()
	s.park(tk, pkWake, site)
	raceEnable()
}

// Go replaces a go statement.
func Go(site string, fn func()) {
	s := active()
	if s == nil {
		go fn()
		return
	}
	tk := lookupTask()
	if tk == nil {
		// spawned from a goroutine that is not under the scheduler: leave it alone
		go fn()
		return
	}
	if tk.dying {
		return // a task being torn down at the end of a run starts nothing new
	}
	s.spawn(site, false, fn)
}

// Order is a permutation of select-case indices, returned by value (no allocation).
type Order [16]int8

// SelOrder yields the priority order in which the rewritten select polls its n cases.
//
//go:norace
func SelOrder(site string, n int) (o Order) {
	for i := 0; i < len(o); i++ {
		o[i] = int8(i)
	}
	s := active()
	if s == nil || n <= 1 {
		return
	}
	if n > len(o) {
		n = len(o)
	}
	tk := lookupTask()
	if tk == nil {
		return
	}
	raceDisable()
	// Fisher–Yates driven by the tape; 0-draws keep source order
	for i := 0; i < n-1; i++ {
		j := i + s.tape.draw(KSelect, n-i)
		o[i], o[j] = o[j], o[i]
	}
	raceEnable()
	return
}

// ZeroOf returns the zero value of a channel's element type (used by the select rewrite
// to declare temporaries without spelling types).
func ZeroOf[T any](c <-chan T) (z T) { return }

// ZeroOfBi is ZeroOf for values whose static type is a bidirectional channel type.
func ZeroOfBi[T any](c chan T) (z T) { return }

type tryLocker interface {
	TryLock() bool
	Lock()
	Unlock()
}

type tryRLocker interface {
	TryRLock() bool
	RLock()
	RUnlock()
}

// Lock replaces m.Lock(): a TryLock loop that yields while the lock is held by someone
// else, so that no goroutine ever blocks on a mutex in a way the bubble cannot see.
//
//go:norace
func Lock(site string, m tryLocker) {
	s := active()
	var tk *Task
	if s != nil {
		tk = lookupTask()
	}
	if tk == nil {
		m.Lock()
		return
	}
	if tk.dying {
		if !m.TryLock() {
			<-s.never
		}
		tk.lockDepth++
		return
	}
	raceDisable()
	s.park(tk, pkYield, site)
	raceEnable()
	for !m.TryLock() {
		raceDisable()
		tk.lockEpoch = s.unlockEpch
		s.park(tk, pkLock, site)
		raceEnable()
	}
	tk.lockDepth++
	if tk.nHeld < len(tk.held) {
		tk.held[tk.nHeld] = m
		tk.nHeld++
	}
}

// Unlock replaces m.Unlock().
//
//go:norace
func Unlock(m tryLocker) {
	m.Unlock()
	s := active()
	if s == nil {
		return
	}
	if tk := lookupTask(); tk != nil {
		if tk.lockDepth > 0 {
			tk.lockDepth--
		}
		for i := tk.nHeld - 1; i >= 0; i-- {
			if tk.held[i] == m {
				copy(tk.held[i:], tk.held[i+1:tk.nHeld])
				tk.nHeld--
				tk.held[tk.nHeld] = nil
				break
			}
		}
		s.unlockEpch++
	}
}

// RLock replaces m.RLock().
//
//go:norace
func RLock(site string, m tryRLocker) {
	s := active()
	var tk *Task
	if s != nil {
		tk = lookupTask()
	}
	if tk == nil {
		m.RLock()
		return
	}
	if tk.dying {
		if !m.TryRLock() {
			<-s.never
		}
		tk.lockDepth++
		return
	}
	raceDisable()
	s.park(tk, pkYield, site)
	raceEnable()
	for !m.TryRLock() {
		raceDisable()
		tk.lockEpoch = s.unlockEpch
		s.park(tk, pkLock, site)
		raceEnable()
	}
	tk.lockDepth++
}

// RUnlock replaces m.RUnlock().
//
//go:norace
func RUnlock(m tryRLocker) {
	m.RUnlock()
	s := active()
	if s == nil {
		return
	}
	if tk := lookupTask(); tk != nil {
		if tk.lockDepth > 0 {
			tk.lockDepth--
		}
		s.unlockEpch++
	}
}

// MapKeys returns the keys of m in a canonical order (so that iteration does not depend
// on the runtime's random start), permuted by the tape when the run has map shuffling on.
func MapKeys[K comparable, V any](m map[K]V) []K {
	keys := make([]K, 0, len(m))
	for k := range m {
		keys = append(keys, k)
	}
	if len(keys) < 2 {
		return keys
	}
	switch ks := any(keys).(type) {
	case []int:
		sort.Ints(ks)
	case []string:
		sort.Strings(ks)
	default:
		strs := make([]string, len(keys))
		for i, k := range keys {
			strs[i] = fmt.Sprintf("%#v", k)
		}
		sort.Sort(&keySorter[K]{keys, strs})
	}
	s := active()
	if s == nil || !MapShuffle || lookupTask() == nil {
		return keys
	}
	for i := 0; i < len(keys)-1; i++ {
		j := i + s.drawHidden(KMap, len(keys)-i)
		keys[i], keys[j] = keys[j], keys[i]
	}
	return keys
}

// MapShuffle turns tape-driven permutation of map iteration on (set per run by the harness).
var MapShuffle bool

type keySorter[K any] struct {
	keys []K
	strs []string
}

func (k *keySorter[K]) Len() int           { return len(k.keys) }
func (k *keySorter[K]) Less(i, j int) bool { return k.strs[i] < k.strs[j] }
func (k *keySorter[K]) Swap(i, j int) {
	k.keys[i], k.keys[j] = k.keys[j], k.keys[i]
	k.strs[i], k.strs[j] = k.strs[j], k.strs[i]
}

// ---------------------------------------------------------------------------------
// region monitor (mutual exclusion between block processing and request closures)

// RegionEvent is delivered to the monitor installed with SetMonitor.
type RegionEvent struct {
	Enter  bool
	Region string
	TaskID int
	Class  string
}

var regionMu sync.Mutex

// SetMonitor installs a callback for Enter/Exit events (harness side).
func SetMonitor(f func(ev RegionEvent)) {
	if s := active(); s != nil {
		s.monitorFn = f
	}
}

// Enter marks the entry of a monitored region by the current task.
func Enter(region string) {
	s := active()
	if s == nil || s.monitorFn == nil {
		return
	}
	tk := lookupTask()
	if tk == nil {
		return
	}
	s.monitorFn(RegionEvent{Enter: true, Region: region, TaskID: tk.ID, Class: tk.Class})
}

// Exit marks the exit of a monitored region.
func Exit(region string) {
	s := active()
	if s == nil || s.monitorFn == nil {
		return
	}
	tk := lookupTask()
	if tk == nil {
		return
	}
	s.monitorFn(RegionEvent{Enter: false, Region: region, TaskID: tk.ID, Class: tk.Class})
}

// CurrentTaskID returns the id of the calling task (-1 if not a task).
//
//go:norace
func CurrentTaskID() int {
	if tk := lookupTask(); tk != nil {
		return tk.ID
	}
	return -1
}
